#!/bin/sh
# Build the overlay venv /verif/.venv on top of /venv (offline, idempotent).
# /venv has numpy/scipy/opt_einsum/teneva(editable -> /repo); the overlay adds
# z3-solver and cvc5 from the offline wheelhouse.  Nothing in /venv is touched.
set -e
HERE="$(cd "$(dirname "$0")" && pwd)"
V="$HERE/.venv"
if [ -x "$V/bin/python" ] && "$V/bin/python" -c "import z3, numpy, scipy" >/dev/null 2>&1; then
    exit 0
fi
rm -rf "$V"
/venv/bin/python -m venv "$V"
SP="$("$V/bin/python" -c 'import sysconfig; print(sysconfig.get_paths()["purelib"])')"
printf "import site; site.addsitedir('/venv/lib/python3.12/site-packages')\n" > "$SP/_verif_overlay.pth"
PIP_NO_INDEX=1 "$V/bin/python" -m pip install --quiet --no-index --find-links /opt/veriftools/wheels z3-solver cvc5 >/dev/null 2>&1 || \
PIP_NO_INDEX=1 "$V/bin/python" -m pip install --quiet --no-index --find-links /opt/veriftools/wheels z3-solver
"$V/bin/python" -c "import z3, numpy, scipy; print('overlay ok: z3', z3.get_version_string(), 'numpy', numpy.__version__)"
