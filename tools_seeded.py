#!/usr/bin/env python3
"""Evaluate a seeded change against the checks.

usage: tools_seeded.py <PROP> <src_dir> <name> [--checks C01,C02] [--tier quick]
  src_dir contains patch.diff, demo.py, notes.md (written by an independent sub-agent)
Steps: (1) in a scratch worktree of /repo: demo passes on clean HEAD, fails with the patch,
the pinned test suite keeps its 57 passing tests; (2) apply the patch to /repo, run the
checks, undo it; (3) store everything under /verif/seeded/<name>/ with meta.json.
"""
import json, os, shutil, subprocess, sys, time

ROOT = os.path.dirname(os.path.abspath(__file__))
BASE = json.load(open('/root/.vp/BASELINE.json'))


def sh(cmd, cwd=None, timeout=3600):
    p = subprocess.run(cmd, shell=True, cwd=cwd, capture_output=True, text=True, timeout=timeout)
    return p.returncode, p.stdout + p.stderr


def main():
    prop, src, name = sys.argv[1:4]
    checks = [prop]
    tier = 'quick'
    skip_confirm = '--skip-confirm' in sys.argv
    for i, a in enumerate(sys.argv):
        if a == '--checks':
            checks = sys.argv[i + 1].split(',')
        if a == '--tier':
            tier = sys.argv[i + 1]
    dst = os.path.join(ROOT, 'seeded', name)
    os.makedirs(dst, exist_ok=True)
    for f in ('patch.diff', 'demo.py', 'notes.md'):
        if os.path.exists(os.path.join(src, f)) and \
                os.path.abspath(os.path.join(src, f)) != os.path.abspath(os.path.join(dst, f)):
            shutil.copy(os.path.join(src, f), os.path.join(dst, f))
    patch = os.path.join(dst, 'patch.diff')
    demo = os.path.join(dst, 'demo.py')
    meta = {'property': prop, 'name': name, 'ran_at': time.strftime('%Y-%m-%d %H:%M:%S')}
    old = {}
    if os.path.exists(os.path.join(dst, 'meta.json')):
        try:
            old = json.load(open(os.path.join(dst, 'meta.json')))
        except Exception:
            old = {}
    notes_path = os.path.join(dst, 'notes.md')
    if os.path.exists(notes_path):
        meta['needs_to_manifest'] = ' '.join(open(notes_path).read().split())[:1200]
    np_ = os.path.join(ROOT, 'seeded', 'NOTES.json')
    if os.path.exists(np_):
        nt = json.load(open(np_)).get(name, {})
        meta['what'] = nt.get('what', '')
        meta['strengthening'] = nt.get('added', '')
    if skip_confirm and 'confirm' in old:
        meta['confirm'] = old['confirm']
        meta['confirmed'] = old.get('confirmed')
    if not skip_confirm:
        wt = f'/tmp/seedwt_{name}'
        sh(f'git -C /repo worktree remove --force {wt}')
        rc, out = sh(f'git -C /repo worktree add -q {wt} HEAD')
        try:
            rc0, o0 = sh(f'/venv/bin/python {demo}', cwd=wt, timeout=1200)
            rca, oa = sh(f'git apply {patch}', cwd=wt)
            rc1, o1 = sh(f'/venv/bin/python {demo}', cwd=wt, timeout=1200)
            rct, ot = sh('/venv/bin/python -m pytest -q -p no:cacheprovider --timeout=900 test', cwd=wt, timeout=3000)
            tail = ot.strip().split('\n')[-1]
            failed = sorted(l.split()[1] for l in ot.split('\n') if l.startswith('FAILED'))
            meta['confirm'] = {'demo_clean_rc': rc0, 'patch_applies': rca == 0, 'demo_patched_rc': rc1,
                               'demo_patched_tail': o1.strip().split('\n')[-3:], 'tests_tail': tail,
                               'tests_failed': failed}
            ok_tests = ('57 passed' in tail) and len(failed) == 2
            meta['confirmed'] = (rc0 == 0 and rca == 0 and rc1 != 0 and ok_tests)
        finally:
            sh(f'git -C /repo worktree remove --force {wt}')
    # run the checks against a scratch worktree with the patch applied
    # (VERIF_REPO points the checks at that checkout; same as applying to /repo)
    wt2 = f'/tmp/seedrun_{name}'
    sh(f'git -C /repo worktree remove --force {wt2}')
    sh(f'git -C /repo worktree add -q {wt2} HEAD')
    rca, oa = sh(f'git apply {patch}', cwd=wt2)
    res = {}
    try:
        if rca != 0:
            meta['apply_error'] = oa
        else:
            for c in checks:
                t0 = time.time()
                rcc, oc = sh(f'VERIF_REPO={wt2} ./check {c} --tier {tier}', cwd=ROOT, timeout=7200)
                viol = [l for l in oc.split('\n') if l.startswith('VIOLATION')]
                keys = [l.strip() for l in oc.split('\n') if l.strip().startswith('key=')]
                res[c] = {'exit': rcc, 'violations': len(viol), 'keys': keys[:6],
                          'summary': oc.strip().split('\n')[-1], 'wall_s': round(time.time() - t0, 1)}
    finally:
        sh(f'git -C /repo worktree remove --force {wt2}')
        shutil.rmtree(os.path.join(ROOT, '.work', 'alt-' + os.path.basename(wt2)), ignore_errors=True)
    meta['checks'] = res
    meta['caught_by'] = [c for c, r in res.items() if r['exit'] == 1]
    meta['what_ran'] = f'scratch worktree of /repo HEAD + git apply patch.diff; demo.py and pytest there; VERIF_REPO=<worktree> ./check <id> --tier {tier} for {checks}; worktree removed'
    json.dump(meta, open(os.path.join(dst, 'meta.json'), 'w'), indent=1)
    print(json.dumps(meta, indent=1)[:3000])


main()
