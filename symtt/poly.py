"""Sparse multivariate polynomials over Q (exact), used as the normal form of
symbolic scalars.  Pure Python, no dependencies.

A monomial is a tuple of (var_id, exponent) pairs sorted by var_id; the empty
tuple is the constant monomial.  Variable ids are interned process-wide by
name (see `vid`), so structurally equal polynomials are equal across path
re-executions.
"""
from fractions import Fraction

_NAME2ID = {}
_ID2NAME = []
_ID2SORT = []          # 'R' or 'I'


def vid(name, sort='R'):
    i = _NAME2ID.get(name)
    if i is None:
        i = len(_ID2NAME)
        _NAME2ID[name] = i
        _ID2NAME.append(name)
        _ID2SORT.append(sort)
    else:
        if _ID2SORT[i] != sort:
            raise ValueError(f'variable {name} re-declared with another sort')
    return i


def vname(i):
    return _ID2NAME[i]


def vsort(i):
    return _ID2SORT[i]


def _nrm(c):
    if type(c) is Fraction and c.denominator == 1:
        return c.numerator
    return c


def to_q(c):
    """Exact rational value of a Python / NumPy number."""
    if type(c) is int or type(c) is Fraction:
        return c
    if isinstance(c, bool):
        return int(c)
    if isinstance(c, int):
        return int(c)
    if isinstance(c, float):
        if c != c or c in (float('inf'), float('-inf')):
            raise ValueError('non-finite constant')
        if c == int(c) and abs(c) < 2**62:
            return int(c)
        return _nrm(Fraction(c))
    if isinstance(c, Fraction):
        return _nrm(Fraction(c))
    # numpy scalars
    try:
        import numpy as np
        if isinstance(c, np.integer):
            return int(c)
        if isinstance(c, np.floating):
            return to_q(float(c))
        if isinstance(c, np.bool_):
            return int(c)
    except ImportError:
        pass
    raise TypeError(f'not a number: {type(c)}')


def _mmul(a, b):
    """Product of two monomials."""
    if not a:
        return b
    if not b:
        return a
    i = j = 0
    la, lb = len(a), len(b)
    out = []
    while i < la and j < lb:
        va, ea = a[i]
        vb, eb = b[j]
        if va == vb:
            out.append((va, ea + eb))
            i += 1
            j += 1
        elif va < vb:
            out.append(a[i])
            i += 1
        else:
            out.append(b[j])
            j += 1
    if i < la:
        out.extend(a[i:])
    if j < lb:
        out.extend(b[j:])
    return tuple(out)


def _mdiv(a, b):
    """a / b for monomials, or None if b does not divide a."""
    if not b:
        return a
    i = 0
    la = len(a)
    out = []
    for vb, eb in b:
        while i < la and a[i][0] < vb:
            out.append(a[i])
            i += 1
        if i >= la or a[i][0] != vb:
            return None
        e = a[i][1] - eb
        if e < 0:
            return None
        if e:
            out.append((vb, e))
        i += 1
    out.extend(a[i:])
    return tuple(out)


_LK = {}


def _lexkey(m):
    k = _LK.get(m)
    if k is None:
        k = _LK[m] = tuple((-v, e) for v, e in m)
    return k


class _Rev:
    __slots__ = ('k', 'm')

    def __init__(self, m):
        self.k = _lexkey(m)
        self.m = m

    def __lt__(self, o):
        return self.k > o.k


_P = (1 << 61) - 1
_PTS = {}


def _pt(v):
    x = _PTS.get(v)
    if x is None:
        x = _PTS[v] = (v * 0x9E3779B97F4A7C15 + 0x1234567) % _P or 7
    return x


def _cmod(c):
    if type(c) is int:
        return c % _P
    return (c.numerator % _P) * pow(c.denominator % _P, -1, _P) % _P


def _uni_mod(poly, x):
    """Specialise every variable except x at fixed points mod _P; returns the
    dense coefficient list (index = degree in x)."""
    out = {}
    for m, c in poly.t.items():
        val = _cmod(c)
        e = 0
        for v, ee in m:
            if v == x:
                e = ee
            else:
                val = val * pow(_pt(v), ee, _P) % _P
        out[e] = (out.get(e, 0) + val) % _P
    deg = max(out) if out else -1
    return [out.get(i, 0) for i in range(deg + 1)]


def _may_divide(f, g):
    """Sound filter: False only if g certainly does not divide f."""
    gv = g.vars()
    if not gv:
        return True
    x = min(gv)
    a = _uni_mod(f, x)
    b = _uni_mod(g, x)
    while b and b[-1] == 0:
        b.pop()
    while a and a[-1] == 0:
        a.pop()
    if not b:
        return True          # unlucky specialisation: cannot tell
    if not a:
        return True
    if len(b) == 1:
        return True
    inv = pow(b[-1], -1, _P)
    a = a[:]
    db = len(b) - 1
    while len(a) - 1 >= db:
        c = a[-1]
        if c:
            q = c * inv % _P
            off = len(a) - 1 - db
            for i, bc in enumerate(b):
                a[off + i] = (a[off + i] - q * bc) % _P
        a.pop()
    return not any(a)


class Poly:
    __slots__ = ('t', '_h', '_v')

    def __init__(self, t):
        self.t = t
        self._h = None
        self._v = None

    # -- constructors -------------------------------------------------
    @staticmethod
    def const(c):
        c = to_q(c)
        return Poly({(): c}) if c else Poly({})

    @staticmethod
    def var(i, e=1):
        return Poly({((i, e),): 1})

    # -- predicates ---------------------------------------------------
    def is_zero(self):
        return not self.t

    def is_const(self):
        t = self.t
        return not t or (len(t) == 1 and () in t)

    def const_value(self):
        return self.t.get((), 0) if self.is_const() else None

    def vars(self):
        if self._v is None:
            s = set()
            for m in self.t:
                for v, _ in m:
                    s.add(v)
            self._v = frozenset(s)
        return self._v

    def degree_in(self, v):
        d = 0
        for m in self.t:
            for vv, e in m:
                if vv == v and e > d:
                    d = e
        return d

    def total_degree(self):
        return max((sum(e for _, e in m) for m in self.t), default=0)

    def __len__(self):
        return len(self.t)

    def __eq__(self, o):
        return isinstance(o, Poly) and self.t == o.t

    def __ne__(self, o):
        return not self.__eq__(o)

    def __hash__(self):
        if self._h is None:
            self._h = hash(frozenset(self.t.items()))
        return self._h

    # -- arithmetic ---------------------------------------------------
    def __neg__(self):
        return Poly({m: -c for m, c in self.t.items()})

    def __add__(self, o):
        if not o.t:
            return self
        if not self.t:
            return o
        a, b = (self.t, o.t) if len(self.t) >= len(o.t) else (o.t, self.t)
        r = dict(a)
        for m, c in b.items():
            x = r.get(m)
            if x is None:
                r[m] = c
            else:
                x = _nrm(x + c)
                if x:
                    r[m] = x
                else:
                    del r[m]
        return Poly(r)

    def __sub__(self, o):
        if not o.t:
            return self
        r = dict(self.t)
        for m, c in o.t.items():
            x = r.get(m)
            if x is None:
                r[m] = -c
            else:
                x = _nrm(x - c)
                if x:
                    r[m] = x
                else:
                    del r[m]
        return Poly(r)

    def scale(self, c):
        if not c:
            return Poly({})
        if c == 1:
            return self
        return Poly({m: _nrm(x * c) for m, x in self.t.items()})

    def __mul__(self, o):
        a, b = self.t, o.t
        if not a or not b:
            return Poly({})
        if len(a) == 1:
            (m1, c1), = a.items()
            if not m1:
                return o.scale(c1)
            return Poly({_mmul(m1, m2): _nrm(c1 * c2) for m2, c2 in b.items()})
        if len(b) == 1:
            (m2, c2), = b.items()
            if not m2:
                return self.scale(c2)
            return Poly({_mmul(m1, m2): _nrm(c1 * c2) for m1, c1 in a.items()})
        r = {}
        for m1, c1 in a.items():
            for m2, c2 in b.items():
                m = _mmul(m1, m2)
                x = r.get(m)
                if x is None:
                    r[m] = c1 * c2
                else:
                    r[m] = x + c1 * c2
        return Poly({m: _nrm(c) for m, c in r.items() if c})

    def __pow__(self, k):
        if k < 0:
            raise ValueError('negative power of a polynomial')
        r = Poly.const(1)
        b = self
        while k:
            if k & 1:
                r = r * b
            k >>= 1
            if k:
                b = b * b
        return r

    # -- division -----------------------------------------------------
    def lead(self):
        m = max(self.t, key=_lexkey)
        return m, self.t[m]

    def divexact(self, g):
        """self / g if g divides self exactly, else None."""
        if not g.t:
            raise ZeroDivisionError
        if not self.t:
            return self
        if len(g.t) == 1:
            (gm, gc), = g.t.items()
            r = {}
            for m, c in self.t.items():
                q = _mdiv(m, gm)
                if q is None:
                    return None
                r[q] = _nrm(Fraction(c) / gc) if gc != 1 else c
            return Poly(r)
        if not _may_divide(self, g):
            return None
        import heapq
        gm, gc = g.lead()
        rest = [(m, c) for m, c in g.t.items() if m != gm]
        r = dict(self.t)
        heap = [_Rev(m) for m in r]
        heapq.heapify(heap)
        q = {}
        while r:
            while True:
                top = heapq.heappop(heap)
                m = top.m
                if m in r:
                    break
            qm = _mdiv(m, gm)
            if qm is None:
                return None
            qc = _nrm(Fraction(r[m]) / gc) if gc != 1 else r[m]
            q[qm] = qc
            del r[m]
            for m2, c2 in rest:
                mm = _mmul(qm, m2)
                x = r.get(mm)
                if x is None:
                    r[mm] = _nrm(-qc * c2)
                    heapq.heappush(heap, _Rev(mm))
                else:
                    x = _nrm(x - qc * c2)
                    if x:
                        r[mm] = x
                    else:
                        del r[mm]
        return Poly(q)

    def content_split(self):
        """Return (c, mono, prim): self = c * mono * prim with prim primitive
        (integer coefficients of gcd 1, positive leading coefficient, no
        monomial factor)."""
        from math import gcd
        if not self.t:
            return 0, (), self
        num = 0
        den = 1
        for c in self.t.values():
            if type(c) is int:
                num = gcd(num, c)
            else:
                num = gcd(num, c.numerator)
                den = den * c.denominator // gcd(den, c.denominator)
        # common denominators: gcd of p_i/q_i = gcd(p_i * (den/q_i)) / den
        if den != 1:
            num = 0
            for c in self.t.values():
                c = Fraction(c)
                num = gcd(num, c.numerator * (den // c.denominator))
        cont = _nrm(Fraction(num, den))
        # monomial gcd
        it = iter(self.t)
        g = dict(next(it))
        for m in it:
            if not g:
                break
            dm = dict(m)
            for v in list(g):
                e = dm.get(v)
                if e is None:
                    del g[v]
                elif e < g[v]:
                    g[v] = e
        mono = tuple(sorted(g.items()))
        lm, lc = self.lead()
        if lc < 0:
            cont = -cont
        prim = {}
        for m, c in self.t.items():
            prim[_mdiv(m, mono)] = _nrm(Fraction(c) / cont)
        return cont, mono, Poly(prim)

    # -- evaluation ---------------------------------------------------
    def eval(self, env):
        """env: var_id -> number (Fraction / int / float)."""
        s = 0
        for m, c in self.t.items():
            x = c
            for v, e in m:
                x = x * env[v] ** e
            s = s + x
        return s

    def subs_var(self, v, repl):
        """Substitute polynomial repl for variable v."""
        out = Poly({})
        cache = {}
        for m, c in self.t.items():
            e = 0
            rest = []
            for vv, ee in m:
                if vv == v:
                    e = ee
                else:
                    rest.append((vv, ee))
            base = Poly({tuple(rest): c})
            if e:
                p = cache.get(e)
                if p is None:
                    p = cache[e] = repl ** e
                base = base * p
            out = out + base
        return out

    def __repr__(self):
        if not self.t:
            return '0'
        parts = []
        for m, c in sorted(self.t.items(), key=lambda x: _lexkey(x[0]), reverse=True):
            ms = '*'.join(vname(v) + (f'^{e}' if e != 1 else '') for v, e in m)
            if not ms:
                parts.append(str(c))
            elif c == 1:
                parts.append(ms)
            elif c == -1:
                parts.append('-' + ms)
            else:
                parts.append(f'{c}*{ms}')
        return ' + '.join(parts).replace('+ -', '- ')
