"""Random-number environment: stub generators whose draws are fresh symbols
constrained by the documented contract, plus the audit used by C10."""
import numpy as _np
from .sym import Sym
from . import engine
from .engine import Unmodelled


def _ctx():
    return engine.CTX


class StubGenerator:
    """Stand-in for numpy.random.Generator.  Real-valued draws are fresh
    symbols tagged (stream, call number, method, parameters)."""

    def __init__(self, stream):
        self.stream = stream
        self.calls = 0
        self.log = []

    def _draw_array(self, method, size, params, constrain):
        ctx = _ctx()
        self.calls += 1
        tag = f'rng_{self.stream}_{self.calls}_{method}'
        self.log.append((method, params, size))
        ctx.rng_audit.append(('draw', self.stream, self.calls, method))
        if size is None:
            x = ctx.real(tag)
            constrain(ctx, x)
            return x
        shape = (size,) if isinstance(size, (int, _np.integer)) else tuple(int(s) for s in size)
        A = _np.empty(shape, dtype=object)
        for idx in _np.ndindex(*shape):
            x = ctx.real(tag + '_' + '_'.join(map(str, idx)))
            constrain(ctx, x)
            A[idx] = x
        return A

    def uniform(self, low=0.0, high=1.0, size=None):
        def con(ctx, x):
            ctx.assume(x >= low)
            ctx.assume(x < high)
        return self._draw_array('uniform', size, (low, high), con)

    def normal(self, loc=0.0, scale=1.0, size=None):
        # a normal draw is loc + scale * z with z an arbitrary real
        zs = self._draw_array('normal', size, (loc, scale), lambda ctx, x: None)
        self.__dict__.setdefault('zlog', []).append(zs)
        return zs * scale + loc

    def standard_normal(self, size=None):
        zs = self._draw_array('normal', size, (0.0, 1.0), lambda ctx, x: None)
        self.__dict__.setdefault('zlog', []).append(zs)
        return zs

    def random(self, size=None):
        return self.uniform(0.0, 1.0, size)

    # ---- integer draws: decided by forking (every outcome is explored) or
    # ---- scripted by the harness (probability audit)
    def _one_index(self, n, exclude=()):
        ctx = _ctx()
        self.calls += 1
        # a stream is a deterministic function of (seed, call number): a second
        # generator created from the same seed replays the same outcomes
        memo = ctx.__dict__.setdefault('rng_outcomes', {})
        key = (self.stream, self.calls, n, tuple(exclude))
        if key in memo:
            return memo[key]
        v = self._one_index_fresh(n, exclude)
        memo[key] = v
        return v

    def _one_index_fresh(self, n, exclude=()):
        ctx = _ctx()
        x = ctx.integer(f'rng_{self.stream}_{self.calls}_idx')      # an input: part of every model, replayed by the concrete twin
        ctx.assume(x >= 0)
        ctx.assume(x < n)
        for e in exclude:
            ctx.assume(x != e)
        return ctx.concretize_int(x)

    def choice(self, a, size=None, replace=True, p=None, **kw):
        ctx = _ctx()
        if kw:
            raise Unmodelled(f'choice keywords {sorted(kw)}')
        if isinstance(a, (int, _np.integer)):
            n = int(a)
            pool = None
        else:
            pool = _np.asarray(a)
            n = len(pool)
        ctx.rng_audit.append(('draw', self.stream, self.calls, 'choice'))
        pc = None
        if p is not None:
            pc = _np.array(p, dtype=object).copy()
            if len(pc) != n:
                raise ValueError("'a' and 'p' must have same size")
        script = getattr(self, 'script', None)
        if size is None:
            k, shape = 1, None
        else:
            shape = (int(size),) if isinstance(size, (int, _np.integer)) else tuple(int(s) for s in size)
            k = int(_np.prod(shape))
        if not replace and k > n:
            raise ValueError('Cannot take a larger sample than population when replace is False')
        out = []
        for _ in range(k):
            if script:
                v = script.pop(0)
            else:
                v = self._one_index(n, exclude=out if not replace else ())
            out.append(int(v))
        self.log.append(('choice', n, size, pc, list(out), bool(replace)))
        vals = [pool[i] for i in out] if pool is not None else out
        if shape is None:
            return vals[0]
        return _np.array(vals).reshape(shape)

    def integers(self, low, high=None, size=None, **kw):
        if high is None:
            low, high = 0, low
        r = self.choice(int(high) - int(low), size)
        return r + int(low)

    def shuffle(self, x, axis=0):
        """In-place permutation chosen by the harness (`perm`: 'identity',
        'reverse', 'rotate'); claims stated on the result are permutation
        invariant."""
        ctx = _ctx()
        ctx.rng_audit.append(('draw', self.stream, self.calls, 'shuffle'))
        self.log.append(('shuffle', len(x)))
        mode = getattr(self, 'perm', 'reverse')
        n = len(x)
        if mode == 'identity' or n < 2:
            return
        idx = list(range(n))[::-1] if mode == 'reverse' else list(range(1, n)) + [0]
        x[...] = _np.array(x)[idx]

    def permutation(self, x):
        a = _np.arange(x) if isinstance(x, (int, _np.integer)) else _np.array(x)
        self.shuffle(a)
        return a


_STREAMS = {}


def default_rng(seed=None):
    ctx = _ctx()
    if seed is None:
        ctx.rng_audit.append(('unseeded_default_rng',))
        return StubGenerator('os_entropy')
    if isinstance(seed, StubGenerator):
        return seed
    if isinstance(seed, Sym):
        c = seed.const_value()
        if c is None:
            return StubGenerator('ssym')          # symbolic integer seed: one stream per seed value
        seed = c
    return StubGenerator(f's{int(seed)}')


class GlobalRNG(Unmodelled):
    """The code under test touched the global NumPy generator."""


def global_random(name):
    def f(*a, **k):
        ctx = _ctx()
        ctx.rng_audit.append(('global', name))
        raise GlobalRNG(f'global np.random.{name}')
    return f
