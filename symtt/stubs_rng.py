"""Random-number environment: stub generators whose draws are fresh symbols
constrained by the documented contract, plus the audit used by C10."""
import numpy as _np
from .sym import Sym
from . import engine
from .engine import Unmodelled


def _ctx():
    return engine.CTX


class StubGenerator:
    """Stand-in for numpy.random.Generator.  Real-valued draws are fresh
    symbols tagged (stream, call number, method, parameters)."""

    def __init__(self, stream):
        self.stream = stream
        self.calls = 0
        self.log = []

    def _draw_array(self, method, size, params, constrain):
        ctx = _ctx()
        self.calls += 1
        tag = f'rng_{self.stream}_{self.calls}_{method}'
        self.log.append((method, params, size))
        ctx.rng_audit.append(('draw', self.stream, self.calls, method))
        if size is None:
            x = ctx.real(tag)
            constrain(ctx, x)
            return x
        shape = (size,) if isinstance(size, (int, _np.integer)) else tuple(int(s) for s in size)
        A = _np.empty(shape, dtype=object)
        for idx in _np.ndindex(*shape):
            x = ctx.real(tag + '_' + '_'.join(map(str, idx)))
            constrain(ctx, x)
            A[idx] = x
        return A

    def uniform(self, low=0.0, high=1.0, size=None):
        def con(ctx, x):
            ctx.assume(x >= low)
            ctx.assume(x < high)
        return self._draw_array('uniform', size, (low, high), con)

    def normal(self, loc=0.0, scale=1.0, size=None):
        # a normal draw is loc + scale * z with z an arbitrary real
        zs = self._draw_array('normal', size, (loc, scale), lambda ctx, x: None)
        return zs * scale + loc

    def random(self, size=None):
        return self.uniform(0.0, 1.0, size)


_STREAMS = {}


def default_rng(seed=None):
    ctx = _ctx()
    if seed is None:
        ctx.rng_audit.append(('unseeded_default_rng',))
        return StubGenerator('os_entropy')
    if isinstance(seed, StubGenerator):
        return seed
    return StubGenerator(f's{int(seed)}')


def global_random(name):
    def f(*a, **k):
        ctx = _ctx()
        ctx.rng_audit.append(('global', name))
        raise Unmodelled(f'global np.random.{name}')
    return f
