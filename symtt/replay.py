"""Replay entry point: python -m symtt.replay <task.json> <out.json>
Runs one harness on concrete float64 values against the unmodified teneva,
real NumPy / SciPy, no proxies installed."""
import importlib
import json
import os
import sys


def main():
    task = json.load(open(sys.argv[1]))
    sys.path.insert(0, os.path.dirname(os.path.dirname(os.path.abspath(__file__))))
    from symtt import explore
    mod = importlib.import_module(task['module'])
    fn = getattr(mod, task['func'])
    out = explore.run_concrete(fn, task['params'], task['values'], task.get('opts'))
    json.dump(out, open(sys.argv[2], 'w'), default=str)


if __name__ == '__main__':
    main()
