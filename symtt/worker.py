"""Worker entry point: python -m symtt.worker <task.json> <result.json>"""
import json
import os
import sys


def main():
    task = json.load(open(sys.argv[1]))
    sys.path.insert(0, os.path.dirname(os.path.dirname(os.path.abspath(__file__))))
    from symtt import explore, engine
    if task.get('dump_dir'):
        os.makedirs(task['dump_dir'], exist_ok=True)
        engine.DUMP_DIR = task['dump_dir']
    try:
        res = explore.explore(task['module'], task['func'], task['params'], task.get('opts', {}))
    except BaseException as e:   # noqa: BLE001 - report harness crashes to the parent
        import traceback
        res = {'harness': task['module'], 'func': task['func'], 'params': task['params'],
               'crash': {'type': type(e).__name__, 'msg': str(e)[:500],
                         'tb': traceback.format_exc()[-2000:]}}
    with open(sys.argv[2], 'w') as fh:
        json.dump(res, fh, default=str)


if __name__ == '__main__':
    main()
