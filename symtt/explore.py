"""Path exploration of one harness instance (runs inside a worker process)."""
import importlib
import time
import traceback
from fractions import Fraction

from . import engine, npshim, monitors
from .engine import Context, ConcreteContext, ConcreteSkip, Unmodelled, HarnessError
from .sym import PathAbort
from .formula import TRUE


MAX_CANDIDATES = 6      # counterexamples kept per claim / obligation kind (from different paths)


def _add_candidate(res, seen_cnt, key, rec):
    """Keep at most MAX_CANDIDATES counterexamples per claim / obligation kind,
    preferring models with moderate magnitudes (more likely to replay in float64)."""
    cur = [f for f in res['failures'] if (f['kind'], f['name']) == key]
    if len(cur) < MAX_CANDIDATES:
        res['failures'].append(rec)
        return
    worst = min(cur, key=lambda f: f.get('quality', 0))
    if rec.get('quality', 0) > worst.get('quality', 0):
        res['failures'].remove(worst)
        res['failures'].append(rec)


def _short_tb(e):
    tb = traceback.extract_tb(e.__traceback__)
    fr = [f'{f.filename.split("/")[-1]}:{f.lineno}:{f.name}' for f in tb[-6:]]
    return ' <- '.join(reversed(fr))


def run_concrete(fn, params, values, opts=None):
    """Run the harness on float64 with the real NumPy/SciPy/teneva."""
    npshim.uninstall()
    engine.CTX = None
    if (opts or {}).get('monitor'):
        monitors.install()
    cctx = ConcreteContext(values, opts)
    out = {'claims': [], 'exception': None, 'skipped': False}
    try:
        import warnings
        import numpy as np
        with warnings.catch_warnings(), np.errstate(all='ignore'):
            warnings.simplefilter('ignore')
            fn(cctx, **params)
    except ConcreteSkip as e:
        out['skipped'] = True
        out['skip_reason'] = str(e)
    except Exception as e:            # noqa: BLE001 - real failure of real code
        out['exception'] = {'type': type(e).__name__, 'msg': str(e)[:300], 'tb': _short_tb(e)}
    out['claims'] = cctx.claims
    out['values'] = {k: str(v) for k, v in cctx.values.items()}
    return out


def explore(mod_name, func_name, params, opts):
    mod = importlib.import_module(mod_name)
    fn = getattr(mod, func_name)
    t0 = time.time()
    if opts.get('crosscheck'):
        engine.CROSS.update({'on': True, 'left': int(opts['crosscheck'])})
    budget = opts.get('budget_s', 120)
    max_paths = opts.get('max_paths', 2000)
    validate = opts.get('validate', True)
    work = [[]]
    res = {
        'harness': mod_name, 'func': func_name, 'params': params,
        'paths': 0, 'aborted_paths': 0, 'decisions': 0,
        'claims': {}, 'canaries': {}, 'obligations': {}, 'failures': [],
        'unknown': [], 'exceptions': [], 'unmodelled': [], 'validated': 0,
        'validation_mismatch': [], 'vacuous_paths': 0, 'stub_calls': {},
        'sample_paths': [], 'exhausted': False, 'assumptions': [],
        'stub_consistency': {}, 'notes': [], 'rng_audit': [],
    }
    seen_fail = set()
    seen_cnt = {}
    if opts.get('concrete_only'):
        # an instance with no symbolic content (code the engine cannot encode):
        # the real code is run on the harness's fixed inputs; reported as such
        cr = run_concrete(fn, params, {}, opts)
        res['paths'] = 1
        res['concrete_only'] = True
        for c in cr['claims']:
            d = res['claims'].setdefault(c['name'], {'unsat': 0, 'sat': 0, 'unknown': 0, 'concrete': 0})
            d['concrete'] = d.get('concrete', 0) + 1
            if not c['ok'] and c['name'] not in seen_fail:
                seen_fail.add(c['name'])
                res['failures'].append({'kind': 'claim', 'name': c['name'], 'values': {'_concrete_': '1'},
                                        'detail': c.get('detail'), 'path': 'concrete'})
        if cr['exception'] is not None:
            res['exceptions'].append(cr['exception'])
            res['failures'].append({'kind': 'exception', 'name': cr['exception']['type'],
                                    'values': {'_concrete_': '1'}, 'detail': cr['exception'], 'path': 'concrete'})
        if not res['failures'] and not cr['skipped']:
            res['validated'] = 1
        work = []
    while work:
        if time.time() - t0 > budget or res['paths'] >= max_paths:
            break
        prefix = work.pop()
        ctx = Context(prefix, opts)
        engine.CTX = ctx
        npshim.install()
        monitors.install()
        status = 'done'
        exc = None
        try:
            fn(ctx, **params)
        except PathAbort as e:
            status = 'abort'
            exc = str(e)
        except Unmodelled as e:
            status = 'unmodelled'
            exc = f'{e} @ {_short_tb(e)}'
        except HarnessError:
            raise
        except Exception as e:        # noqa: BLE001
            status = 'exception'
            exc = {'type': type(e).__name__, 'msg': str(e)[:300], 'tb': _short_tb(e)}
        work.extend(ctx.alternatives)
        res['paths'] += 1
        res['decisions'] += ctx.n_decisions
        for k, v in ctx.__dict__.get('stub_calls', {}).items():
            res['stub_calls'][k] = res['stub_calls'].get(k, 0) + v
        for v in ctx.__dict__.get('stub_consistency', []):
            res['stub_consistency'][v] = res['stub_consistency'].get(v, 0) + 1
        for a in ctx.assumptions:
            if a not in res['assumptions']:
                res['assumptions'].append(a)
        if ctx.generic_divisors:
            res['generic_divisors'] = res.get('generic_divisors', 0) + len(ctx.generic_divisors)
            a = 'genericity: divisors assumed non-zero, e.g. ' + ctx.generic_divisors[0]
            if not any(x.startswith('genericity') for x in res['assumptions']):
                res['assumptions'].append(a)
        for n_ in ctx.notes:
            if n_ not in res['notes'] and len(res['notes']) < 50:
                res['notes'].append(n_)
        for a in ctx.rng_audit:
            if a[0] != 'draw' and list(a) not in res['rng_audit']:
                res['rng_audit'].append(list(a))
        # witness of the path (reachability twin: `false` must be refuted)
        witness = None
        if status != 'abort':
            v, m = ctx.witness_model()
            if v == 'unsat':
                # a path entered through a branch whose feasibility the solver
                # could not decide (explored as an over-approximation) and that
                # turns out infeasible is spurious, not vacuous
                if ctx.unknown_branches:
                    res['spurious_paths'] = res.get('spurious_paths', 0) + 1
                else:
                    res['vacuous_paths'] += 1
            elif v == 'sat':
                witness = ctx._input_values(m)
        else:
            res['aborted_paths'] += 1
        path_ok = status == 'done'
        for c in ctx.claims:
            if c['kind'] == 'canary':
                d = res['canaries'].setdefault(c['name'], {'refuted': 0, 'not_refuted': 0, 'unknown': 0})
                # (a solver time-out on a canary says nothing about vacuity: inconclusive, not a harness error)
                d['refuted' if c['verdict'] == 'sat' else ('not_refuted' if c['verdict'] == 'unsat' else 'unknown')] += 1
                continue
            d = res['claims'].setdefault(c['name'], {'unsat': 0, 'sat': 0, 'unknown': 0})
            d[c['verdict']] = d.get(c['verdict'], 0) + 1
            if c['verdict'] == 'sat':
                path_ok = False
                _add_candidate(res, seen_cnt, ('claim', c['name']),
                               {'kind': 'claim', 'name': c['name'], 'values': c.get('model'),
                                'detail': c.get('detail'), 'path': _log_repr(ctx.log),
                                'quality': c.get('quality', 0)})
                for am in c.get('alt_models', []):
                    _add_candidate(res, seen_cnt, ('claim', c['name']),
                                   {'kind': 'claim', 'name': c['name'], 'values': am,
                                    'detail': c.get('detail'), 'path': _log_repr(ctx.log),
                                    'quality': c.get('quality', 0)})
            elif c['verdict'] != 'unsat':
                path_ok = False
                if len(res['unknown']) < 20:
                    res['unknown'].append({'name': c['name'], 'verdict': c['verdict']})
        for o in ctx.obligations:
            d = res['obligations'].setdefault(o['kind'], {'unsat': 0, 'sat': 0, 'unknown': 0})
            d[o['verdict']] = d.get(o['verdict'], 0) + 1
            if o['verdict'] == 'sat':
                _add_candidate(res, seen_cnt, ('obligation', o['kind']),
                               {'kind': 'obligation', 'name': o['kind'], 'values': o.get('model'),
                                'detail': o.get('what'), 'path': _log_repr(ctx.log),
                                'quality': o.get('quality', 0)})
        if status == 'exception':
            key = ('exc', exc['type'], exc['tb'])
            if key not in seen_fail:
                seen_fail.add(key)
                res['exceptions'].append(exc)
                res['failures'].append({'kind': 'exception', 'name': exc['type'],
                                        'values': witness, 'detail': exc,
                                        'path': _log_repr(ctx.log)})
        if status == 'unmodelled':
            if exc not in res['unmodelled'] and len(res['unmodelled']) < 20:
                res['unmodelled'].append(exc)
        if len(res['sample_paths']) < 3:
            res['sample_paths'].append({
                'decisions': _log_repr(ctx.log)[:40], 'status': status,
                'path_condition': [repr(f)[:160] for f in ctx.pc[:6]],
                'claims': [f"{c['name']}:{c['verdict']}" for c in ctx.claims][:12],
                'witness': witness if witness is None else dict(list(witness.items())[:8])})
        # cross-validation of the path against the real implementation
        if validate and witness is not None and path_ok:
            cr = run_concrete(fn, params, witness, dict(opts, strict=False))
            if cr['skipped']:
                pass
            elif cr['exception'] is None and all(c['ok'] for c in cr['claims']):
                res['validated'] += 1
            else:
                bad = [c['name'] for c in cr['claims'] if not c['ok']]
                if len(res['validation_mismatch']) < 10:
                    res['validation_mismatch'].append(
                        {'values': witness, 'failed': bad, 'exception': cr['exception']})
    res['exhausted'] = not work
    res['remaining_paths'] = len(work)
    res['wall_s'] = round(time.time() - t0, 3)
    res['functions'] = monitors.executed()
    st = {}
    engine.STATS.merge_into(st)
    res['solver'] = st
    if engine.CROSS['on']:
        res['crosscheck'] = {'agree': engine.CROSS['agree'], 'inconclusive': engine.CROSS['inconclusive'],
                             'disagree': engine.CROSS['disagree'][:5], 'by': engine.CROSS['by']}
    npshim.uninstall()
    monitors.uninstall()
    engine.CTX = None
    return res


def _log_repr(log):
    out = []
    for e in log:
        if isinstance(e, tuple) and e[0] == 'u':
            out.append('t?' if e[1] else 'f?')
        elif isinstance(e, tuple):
            out.append(f'v{e[1]}{"+" if e[2] else "-"}')
        else:
            out.append('T' if e else 'F')
    return ''.join(out)
