"""Symbolic scalars: normalised rational functions over Q with atoms.

`Sym` = numerator polynomial / product of denominator factors.  All Python
arithmetic, comparison and NumPy object-array ufunc hooks are defined, so the
unmodified teneva source runs on `numpy.ndarray(dtype=object)` of `Sym`s.
"""
from fractions import Fraction
import math

from .poly import Poly, to_q, vid, vname, vsort, _nrm
from .formula import Formula, Cmp, And, Or, TRUE, FALSE, BoolConst, _lift

_ONE = Poly.const(1)
_ZERO = Poly.const(0)


def _ctx():
    from . import engine
    return engine.CTX


class PathAbort(BaseException):
    """Raised to abandon the current path (infeasible / budget)."""


def is_num(x):
    if isinstance(x, (int, float, Fraction)):
        return True
    import numpy as np
    return isinstance(x, (np.integer, np.floating, np.bool_))


# Python float literals that stand for an irrational constant the code means
# exactly (2**0.5 is constant-folded by the compiler and never reaches the
# numpy proxy): they are mapped to the same root atom as np.sqrt(2.), so that
# sqrt(2.) / 2**0.5 == 1 as in floating point.
_IRRATIONAL_FLOATS = {2 ** 0.5: (2, 1), 0.5 ** 0.5: (1, 2), 3 ** 0.5: (3, 1)}


def _special_float(o):
    if type(o) is float or (hasattr(o, 'dtype') and getattr(o, 'ndim', 1) == 0 and getattr(o.dtype, 'kind', '') == 'f'):
        q = _IRRATIONAL_FLOATS.get(abs(float(o)))
        if q is not None:
            ctx = _ctx()
            if ctx is not None and hasattr(ctx, 'root'):
                r = ctx.root(Sym(Poly.const(Fraction(q[0], q[1]))), 2)
                return r if o > 0 else -r
    return o


class SymBool:
    __slots__ = ('f',)

    def __init__(self, f):
        self.f = f

    def __bool__(self):
        f = self.f
        if f is TRUE:
            return True
        if f is FALSE:
            return False
        return _ctx().branch(f)

    def __and__(self, o):
        return mkbool(And.make([self.f, _lift(o)]))

    __rand__ = __and__

    def __or__(self, o):
        return mkbool(Or.make([self.f, _lift(o)]))

    __ror__ = __or__

    def __invert__(self):
        return mkbool(self.f.negate())

    def __repr__(self):
        return f'SymBool{self.f!r}'


def mkbool(f):
    if f is TRUE:
        return True
    if f is FALSE:
        return False
    return SymBool(f)


def _den_key(d):
    return frozenset(d.items())


def _factors_of(p):
    """Split nonzero polynomial p = c * prod(factors); returns (c, {Poly: mult})."""
    c, mono, prim = p.content_split()
    fac = {}
    for v, e in mono:
        fac[Poly.var(v)] = e
    if not prim.is_const():
        fac[prim] = fac.get(prim, 0) + 1
    else:
        c = c * prim.const_value()
    return c, fac


class Sym:
    __slots__ = ('n', 'd', 'raw')

    def __init__(self, n, d=None):
        self.n = n
        self.d = d if d else None
        self.raw = None

    # ---- construction ----
    @staticmethod
    def const(c):
        return Sym(Poly.const(c))

    @staticmethod
    def var(name, sort='R'):
        return Sym(Poly.var(vid(name, sort)))

    @staticmethod
    def lift(x):
        if type(x) is Sym:
            return x
        if isinstance(x, SymBool):
            raise TypeError('SymBool used as a number')
        if hasattr(x, 'ndim') and hasattr(x, 'item') and x.ndim == 0:
            return Sym.lift(x.item())
        return Sym(Poly.const(x))

    # ---- inspection ----
    def is_const(self):
        return self.d is None and self.n.is_const()

    def const_value(self):
        return self.n.const_value() if self.d is None else None

    def is_int_sorted(self):
        if self.d is not None:
            return False
        return all(vsort(v) == 'I' for v in self.n.vars()) and \
            all(type(c) is int for c in self.n.t.values())

    def key(self):
        return (self.n, _den_key(self.d) if self.d else None)

    def vars(self):
        s = set(self.n.vars())
        if self.d:
            for f in self.d:
                s |= f.vars()
        return s

    def den_poly(self):
        p = _ONE
        if self.d:
            for f, m in self.d.items():
                p = p * f ** m
        return p

    def __hash__(self):
        return hash(self.key())

    # ---- normalisation ----
    @staticmethod
    def _mk(n, d):
        """Cancel denominator factors that divide the numerator; apply rewrites."""
        if not n.t:
            return Sym(_ZERO)
        if d:
            nv = n.vars()
            nd = None
            for f, m in d.items():
                if f.vars() <= nv:
                    k = m
                    while k > 0:
                        q = n.divexact(f)
                        if q is None:
                            break
                        n = q
                        k -= 1
                    if k != m:
                        if nd is None:
                            nd = dict(d)
                        if k:
                            nd[f] = k
                        else:
                            del nd[f]
                        nv = n.vars()
            if nd is not None:
                d = nd
        s = Sym(n, d)
        rw = _ctx().rewrites if _ctx() is not None else None
        if rw:
            s = s._reduce(rw)
        return s

    def _reduce(self, rw):
        """Apply atom rewrites v^k -> Sym for monomials with exponent >= k."""
        n = self.n
        hit = None
        for v in n.vars():
            r = rw.get(v)
            if r is not None and n.degree_in(v) >= r[0]:
                hit = (v, r)
                break
        if hit is None:
            return self
        v, (k, repl) = hit
        # n = sum_j c_j(rest) v^j ; v^j = v^(j mod k) * repl^(j div k)
        groups = {}
        for m, c in n.t.items():
            e = 0
            rest = []
            for vv, ee in m:
                if vv == v:
                    e = ee
                else:
                    rest.append((vv, ee))
            qd, rm = divmod(e, k)
            mm = tuple(sorted(rest + ([(v, rm)] if rm else [])))
            groups.setdefault(qd, {})[mm] = c
        total = None
        for qd, t in groups.items():
            term = Sym(Poly(t))
            if qd:
                term = term * (repl ** qd)
            total = term if total is None else total + term
        if self.d:
            total = total * Sym(_ONE, self.d)
        return total

    # ---- arithmetic ----
    def __neg__(self):
        return Sym(-self.n, self.d)

    def __pos__(self):
        return self

    def __add__(self, o):
        if type(o) is not Sym:
            o = _special_float(o)
        if type(o) is not Sym:
            if isinstance(o, SymExpBase):
                return NotImplemented
            try:
                o = Sym(Poly.const(o))
            except TypeError:
                return NotImplemented
        a, b = self, o
        if not b.n.t:
            return a
        if not a.n.t:
            return b
        if a.d is None and b.d is None:
            return Sym(a.n + b.n)
        if a.d == b.d:
            return Sym._mk(a.n + b.n, a.d)
        da = a.d or {}
        db = b.d or {}
        L = dict(da)
        for f, m in db.items():
            if L.get(f, 0) < m:
                L[f] = m
        na, nb = a.n, b.n
        for f, m in L.items():
            ea = m - da.get(f, 0)
            eb = m - db.get(f, 0)
            if ea:
                na = na * f ** ea
            if eb:
                nb = nb * f ** eb
        return Sym._mk(na + nb, L)

    __radd__ = __add__

    def __sub__(self, o):
        if type(o) is not Sym:
            o = _special_float(o)
        if type(o) is not Sym:
            try:
                o = Sym(Poly.const(o))
            except TypeError:
                return NotImplemented
        return self + (-o)

    def __rsub__(self, o):
        o = _special_float(o)
        if type(o) is Sym:
            return o + (-self)
        try:
            return Sym(Poly.const(o)) + (-self)
        except TypeError:
            return NotImplemented

    def __mul__(self, o):
        if type(o) is not Sym:
            o = _special_float(o)
        if type(o) is not Sym:
            try:
                c = to_q(o)
            except TypeError:
                return NotImplemented
            if c == 1:
                return self
            if not c:
                return Sym(_ZERO)
            return Sym(self.n.scale(c), self.d)
        a, b = self, o
        if not a.n.t or not b.n.t:
            return Sym(_ZERO)
        n = a.n * b.n
        if a.d is None and b.d is None:
            s = Sym(n)
            rw = _ctx().rewrites if _ctx() is not None else None
            return s._reduce(rw) if rw else s
        if a.d is None:
            d = b.d
        elif b.d is None:
            d = a.d
        else:
            d = dict(a.d)
            for f, m in b.d.items():
                d[f] = d.get(f, 0) + m
        return Sym._mk(n, d)

    __rmul__ = __mul__

    def inv(self):
        ctx = _ctx()
        if not self.n.t:
            if ctx is not None:
                ctx.zero_division(self)
            raise ZeroDivisionError('symbolic division by exact zero')
        c = self.n.const_value()
        if c is not None:
            n = Poly.const(Fraction(1) / c)
            if self.d:
                for f, m in self.d.items():
                    n = n * f ** m
            return Sym(n)
        if ctx is not None:
            ctx.require_nonzero(self)
        c, fac = _factors_of(self.n)
        n = Poly.const(Fraction(1) / c)
        if self.d:
            for f, m in self.d.items():
                n = n * f ** m
        return Sym._mk(n, fac)

    def __truediv__(self, o):
        if type(o) is not Sym:
            o = _special_float(o)
        if type(o) is not Sym:
            if isinstance(o, SymExpBase):
                return NotImplemented
            try:
                c = to_q(o)
            except TypeError:
                return NotImplemented
            if not c:
                ctx = _ctx()
                if ctx is not None:
                    ctx.zero_division(self)
                raise ZeroDivisionError('division by zero')
            return Sym(self.n.scale(Fraction(1) / c), self.d)
        return self * o.inv()

    def __rtruediv__(self, o):
        o = _special_float(o)
        if type(o) is Sym:
            return o * self.inv()
        try:
            return Sym(Poly.const(o)) * self.inv()
        except TypeError:
            return NotImplemented

    def __pow__(self, k):
        if type(k) is Sym:
            c = k.const_value()
            if c is None:
                raise TypeError('symbolic exponent')
            k = c
        else:
            k = to_q(k)
        if type(k) is int:
            if k == 0:
                return Sym(_ONE)
            if k < 0:
                return self.inv() ** (-k)
            r = None
            b = self
            while k:
                if k & 1:
                    r = b if r is None else r * b
                k >>= 1
                if k:
                    b = b * b
            return r
        k = Fraction(k)
        # rational power: root atom
        num, den = k.numerator, k.denominator
        if den > 64:
            # e.g. 1./3 as a float: recover the intended small denominator
            fl = float(k)
            for dd in range(2, 65):
                if float(Fraction(round(fl * dd), dd)) == fl or abs(fl * dd - round(fl * dd)) < 1e-12:
                    num, den = round(fl * dd), dd
                    break
            else:
                raise TypeError(f'unsupported exponent {k}')
        r = _ctx().root(self, den)
        return r ** num

    def __rpow__(self, b):
        c = self.const_value()
        if c is None:
            raise TypeError('symbolic exponent')
        b = to_q(b)
        if type(c) is int:
            return Sym.const(Fraction(b) ** c)
        return Sym.const(float(b) ** float(c))

    def __abs__(self):
        c = self.const_value()
        if c is not None:
            return Sym.const(abs(c))
        return _ctx().abs(self)

    # ---- integer-ish operations (integer-sorted values) ----
    def __mod__(self, k):
        k = to_q(k)
        c = self.const_value()
        if c is not None:
            return Sym.const(c % k)
        return _ctx().divmod(self, k)[1]

    def __floordiv__(self, k):
        k = to_q(k)
        c = self.const_value()
        if c is not None:
            return Sym.const(c // k)
        return _ctx().divmod(self, k)[0]

    def __divmod__(self, k):
        return self // k, self % k

    def __int__(self):
        """int(x) / assignment into a native integer array: truncation toward zero
        for a real-sorted value (the C cast), the value itself for an integer-sorted one."""
        c = self.const_value()
        if c is not None:
            return int(c)
        ctx = _ctx()
        if self.is_int_sorted():
            return ctx.concretize_int(self)
        return ctx.concretize_int(ctx.trunc(self))

    def __index__(self):
        c = self.const_value()
        if c is not None:
            if type(c) is int:
                return c
            raise TypeError('non-integer constant used as index')
        return _ctx().concretize_int(self)

    def __lshift__(self, k):
        return self * (1 << int(k))

    def __rshift__(self, k):
        """x >> k for an integer-sorted x: floor division by 2**k."""
        c = self.const_value()
        if c is not None:
            return Sym.const(int(c) >> int(k))
        return _ctx().divmod(self, 1 << int(k))[0]

    def __and__(self, mask):
        """x & (2**t - 1) for an integer-sorted x: remainder modulo 2**t."""
        mask = int(mask)
        if mask < 0 or (mask + 1) & mask:
            raise TypeError('bit mask that is not 2**t - 1')
        c = self.const_value()
        if c is not None:
            return Sym.const(int(c) & mask)
        return _ctx().divmod(self, mask + 1)[1]

    __rand__ = __and__

    def __rlshift__(self, b):
        c = self.const_value()
        if c is None:
            raise TypeError('symbolic shift amount')
        return b << c

    # ---- comparisons ----
    def _cmp(self, o, op):
        if type(o) is not Sym:
            try:
                o = Sym(Poly.const(o))
            except TypeError:
                return NotImplemented
        diff = self - o
        return mkbool(sign_formula(diff, op))

    def __lt__(self, o):
        return self._cmp(o, '<')

    def __le__(self, o):
        return self._cmp(o, '<=')

    def __gt__(self, o):
        return self._cmp(o, '>')

    def __ge__(self, o):
        return self._cmp(o, '>=')

    def __eq__(self, o):
        if o is None:
            return False
        r = self._cmp(o, '==')
        return False if r is NotImplemented else r

    def __ne__(self, o):
        if o is None:
            return True
        r = self._cmp(o, '!=')
        return True if r is NotImplemented else r

    def __bool__(self):
        c = self.const_value()
        if c is not None:
            return bool(c)
        return bool(self != 0)

    # ---- NumPy object-loop hooks (np.sqrt(obj_array) calls elem.sqrt()) ----
    def sqrt(self):
        c = self.const_value()
        if c is not None:
            if c < 0:
                _ctx().domain_error('sqrt', self)
            r = _exact_root(c, 2)
            if r is not None:
                return Sym.const(r)
        return _ctx().root(self, 2)

    def conjugate(self):
        return self

    conj = conjugate

    @property
    def real(self):
        return self

    @property
    def imag(self):
        return Sym(_ZERO)

    def log2(self):
        return _ctx().log2(self)

    def floor(self):
        c = self.const_value()
        if c is not None:
            return Sym.const(math.floor(c))
        return _ctx().floor(self)

    __floor__ = floor

    def ceil(self):
        return -((-self).floor())

    __ceil__ = ceil

    def rint(self):
        c = self.const_value()
        if c is not None:
            return Sym.const(round(Fraction(c)))   # ties to even, like np.rint
        return _ctx().rint(self)

    def __round__(self, nd=None):
        return self.rint()

    def trunc(self):
        c = self.const_value()
        if c is not None:
            return Sym.const(math.trunc(c))
        return _ctx().trunc(self)

    __trunc__ = trunc

    def cos(self):
        return _ctx().trig('cos', self)

    def sin(self):
        return _ctx().trig('sin', self)

    def arccos(self):
        return _ctx().arccos(self)

    def item(self):
        return self

    def copy(self):
        return self

    def __repr__(self):
        if self.d:
            ds = '*'.join(f'({f!r})' + (f'^{m}' if m != 1 else '') for f, m in self.d.items())
            return f'<({self.n!r})/{ds}>'
        return f'<{self.n!r}>'


def _rawwrap(opname, fn, swap=False):
    def w(self, o):
        r = fn(self, o)
        c = _ctx()
        if c is not None and getattr(c, 'fl_on', False) and type(r) is Sym and not r.is_const():
            # standard model of floating point arithmetic: fl(x op y) = (x op y)(1 + delta),
            # |delta| <= 2^-53 (no overflow / underflow); integer-sorted +,-,* are exact
            exact = opname != '/' and self.is_int_sorted() and \
                (o.is_int_sorted() if type(o) is Sym else isinstance(o, int))
            if not exact:
                r = _RAW_MUL(r, c.fl_delta())
            return r
        if c is not None and getattr(c, 'raw_on', False) and type(r) is Sym:
            r = Sym(r.n, r.d)
            r.raw = c.raw_node(opname, o, self) if swap else c.raw_node(opname, self, o)
        return r
    w.__wrapped__ = fn
    w.__name__ = fn.__name__
    return w


_RAW_MUL = Sym.__mul__

for _nm, _op, _sw in (('__add__', '+', False), ('__radd__', '+', True),
                      ('__sub__', '-', False), ('__rsub__', '-', True),
                      ('__mul__', '*', False), ('__rmul__', '*', True),
                      ('__truediv__', '/', False), ('__rtruediv__', '/', True)):
    setattr(Sym, _nm, _rawwrap(_op, getattr(Sym, _nm), _sw))


def _rawneg(fn):
    def w(self):
        r = fn(self)
        c = _ctx()
        if c is not None and getattr(c, 'raw_on', False):
            r = Sym(r.n, r.d)
            r.raw = c.raw_node('neg', self, None)
        return r
    return w


Sym.__neg__ = _rawneg(Sym.__neg__)


class SymExpBase:
    """Marker base class for exponent expressions (see expo.py)."""
    __slots__ = ()


def _exact_root(c, k):
    """k-th root of a non-negative rational if it is rational, else None."""
    c = Fraction(c)
    if c < 0:
        return None

    def iroot(n):
        if n < 2:
            return n
        r = round(n ** (1.0 / k)) if n < 2**1000 else None
        if r is None:
            # integer Newton
            r = 1 << ((n.bit_length() + k - 1) // k)
            while True:
                nr = ((k - 1) * r + n // r ** (k - 1)) // k
                if nr >= r:
                    break
                r = nr
        for cand in (r - 1, r, r + 1):
            if cand >= 0 and cand ** k == n:
                return cand
        return None
    a = iroot(c.numerator)
    b = iroot(c.denominator)
    if a is None or b is None:
        return None
    return _nrm(Fraction(a, b))


def sign_formula(x, op):
    """Formula for `x op 0` where x is a Sym (denominators assumed non-zero)."""
    n = x.n
    if x.d and op not in ('==', '!='):
        for f, m in x.d.items():
            if m % 2:
                n = n * f
    return Cmp.make(n, op)


def eq_formula(a, b):
    a = Sym.lift(a)
    b = Sym.lift(b)
    return sign_formula(a - b, '==')
