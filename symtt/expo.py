"""Exponent atoms for the stabilised (mantissa, power-of-two exponent) arithmetic.

`int(floor(log2(v)))` becomes an integer-typed exponent atom p with a positive
real *scale variable* E_p standing for 2**p and the contract E_p <= v < 2 E_p.
`2.**p` evaluates to E_p, sums of exponents to products of scales, p/2 and p/d
to root atoms.  (With an uninterpreted exp2 z3 answers unknown; with scale
variables the same claims are decided in milliseconds.)  That E_p is an exact
power of two is not encoded: every claim proved holds for any positive scale
satisfying the contract, a superset.
"""
from fractions import Fraction

from .sym import Sym, SymExpBase, sign_formula
from .poly import Poly, to_q
from .formula import Cmp
from .engine import Unmodelled


class Log2(SymExpBase):
    """log2 of a positive symbolic value; only floor() of it is modelled."""
    __slots__ = ('ctx', 'x')

    def __init__(self, ctx, x):
        self.ctx = ctx
        self.x = x

    def floor(self):
        return exp_atom(self.ctx, self.x)

    __floor__ = floor


class SymExp(SymExpBase):
    """c + sum_i k_i p_i  with exponent atoms p_i (scale variables E_i = 2**p_i)."""
    __slots__ = ('ctx', 'c', 'terms')

    def __init__(self, ctx, c, terms):
        self.ctx = ctx
        self.c = Fraction(c)
        self.terms = {k: v for k, v in terms.items() if v}

    # ---- linear arithmetic ----
    def _coerce(self, o):
        if isinstance(o, SymExp):
            return o
        if isinstance(o, Sym):
            c = o.const_value()
            if c is None:
                raise Unmodelled('exponent mixed with a symbolic real')
            return SymExp(self.ctx, c, {})
        return SymExp(self.ctx, to_q(o), {})

    def __add__(self, o):
        o = self._coerce(o)
        t = dict(self.terms)
        for k, v in o.terms.items():
            t[k] = t.get(k, 0) + v
        return SymExp(self.ctx, self.c + o.c, t)

    __radd__ = __add__

    def __neg__(self):
        return SymExp(self.ctx, -self.c, {k: -v for k, v in self.terms.items()})

    def __sub__(self, o):
        return self + (-self._coerce(o))

    def __rsub__(self, o):
        return self._coerce(o) + (-self)

    def __mul__(self, k):
        k = Fraction(to_q(k))
        return SymExp(self.ctx, self.c * k, {a: v * k for a, v in self.terms.items()})

    __rmul__ = __mul__

    def __truediv__(self, k):
        return self * (Fraction(1) / Fraction(to_q(k)))

    def to_int(self):
        return self

    def floor(self):
        if self.c.denominator == 1 and all(Fraction(v).denominator == 1 for v in self.terms.values()):
            return self
        raise Unmodelled('floor of a fractional exponent')

    def item(self):
        return self

    def is_const(self):
        return not self.terms

    # ---- 2 ** self ----
    def scale(self):
        """2**self as a Sym (product of scale variables / root atoms)."""
        ctx = self.ctx
        c = self.c
        ip = c.numerator // c.denominator
        fp = c - ip
        r = Sym.const(Fraction(2) ** ip)
        if fp:
            r = r * (ctx.root(Sym.const(2), fp.denominator) ** fp.numerator)
        for a, k in self.terms.items():
            k = Fraction(k)
            E = ctx.exp_scales[a]
            ip = k.numerator // k.denominator
            fp = k - ip
            if ip:
                r = r * (E ** ip)
            if fp:
                r = r * (ctx.root(E, fp.denominator) ** fp.numerator)
        return r

    def __rpow__(self, b):
        if to_q(b) != 2:
            raise Unmodelled('power with base other than 2 and symbolic exponent')
        return self.scale()

    # ---- comparisons: monotonicity of 2**x ----
    def _cmp(self, o, op):
        d = self - self._coerce(o)
        if not d.terms:
            v = {'<': d.c < 0, '<=': d.c <= 0, '>': d.c > 0, '>=': d.c >= 0,
                 '==': d.c == 0, '!=': d.c != 0}[op]
            return v
        s = d.scale()
        one = Sym.const(1)
        r = {'<': s < one, '<=': s <= one, '>': s > one, '>=': s >= one,
             '==': s == one, '!=': s != one}[op]
        if op in ('<', '<=', '>', '>='):
            # decide now and remember a margin version of the decision: the scale
            # variables over-approximate powers of two by a factor < 2, so a
            # counterexample is only replayable if exponent comparisons hold with
            # slack (used when a model is extracted, never for verdicts)
            res = bool(r)
            up = (op in ('>', '>=')) == res
            from .formula import _lift
            self.ctx.robust.append(_lift(s > 16 if up else s < Sym.const(1) / 16))
            return res
        return r

    def __lt__(self, o):
        return self._cmp(o, '<')

    def __le__(self, o):
        return self._cmp(o, '<=')

    def __gt__(self, o):
        return self._cmp(o, '>')

    def __ge__(self, o):
        return self._cmp(o, '>=')

    def __eq__(self, o):
        if o is None:
            return False
        return self._cmp(o, '==')

    def __ne__(self, o):
        if o is None:
            return True
        return self._cmp(o, '!=')

    def __hash__(self):
        return hash((self.c, tuple(sorted(self.terms.items()))))

    def __bool__(self):
        """Truth value of an exponent (`p1 or p2`, `if p:`): p != 0."""
        if not self.terms:
            return self.c != 0
        s = self.scale()
        res = bool(s != Sym.const(1))
        if res:
            # replayable models: the true exponent is non-zero when the scales are well away from 1
            from .formula import _lift, Or
            self.ctx.robust.append(Or.make([_lift(s > 16), _lift(s < Sym.const(1) / 16)]))
        return res

    def __repr__(self):
        return f'SymExp({self.c} + {self.terms})'


def exp_atom(ctx, v):
    """p = floor(log2(v)) for v > 0: fresh scale E with E <= v < 2E."""
    key = ('expatom', v.key())
    r = ctx.atom_cache.get(key)
    if r is not None:
        return r
    c = v.const_value()
    if c is not None:
        if c <= 0:
            ctx.domain_error('log2', v)
        import math
        p = math.floor(math.log2(c))
        while Fraction(2) ** p > c:
            p -= 1
        while Fraction(2) ** (p + 1) <= c:
            p += 1
        r = SymExp(ctx, p, {})
        ctx.atom_cache[key] = r
        return r
    # obligation: argument of the logarithm is positive
    kk = ('pos', v.key())
    if kk not in ctx.nonneg_known:
        ctx.nonneg_known.add(kk)
        ctx._obligation('log_of_nonpositive', sign_formula(v, '<='), repr(v)[:200])
    E = ctx.fresh_real('E')
    (ev,) = E.n.vars()
    scales = ctx.__dict__.setdefault('exp_scales', {})
    aid = len(scales)
    scales[aid] = E
    ctx.var_sign[ev] = '+'
    ctx.defs[ev] = [Cmp.make(E.n, '>'), sign_formula(E - v, '<='), sign_formula(v - E * 2, '<')]
    r = SymExp(ctx, 0, {aid: 1})
    ctx.atom_cache[key] = r
    return r


def log2(ctx, x):
    return Log2(ctx, x)
