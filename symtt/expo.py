"""Exponent atoms for stabilised arithmetic (filled in with C16)."""
from .engine import Unmodelled


def log2(ctx, x):
    raise Unmodelled('log2 of a symbolic value')
