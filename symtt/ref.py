"""Independent dense reference (REF): explicit sum over rank multi-indices of
products of core entries.  Uses no teneva function; works on object arrays of
`Sym` and on float arrays alike."""
import itertools
import numpy as np


def ref_full(Y):
    """Dense tensor of the TT-cores Y as an ndarray of shape n_1 x ... x n_d."""
    d = len(Y)
    n = [G.shape[1] for G in Y]
    obj = any(G.dtype == object for G in Y)
    out = np.empty(n, dtype=object if obj else float)
    for idx in itertools.product(*[range(k) for k in n]):
        out[idx] = ref_get(Y, idx)
    return out


def ref_get(Y, idx):
    """Entry at multi-index idx: product of matrix slices, written out."""
    v = [Y[0][0, idx[0], b] for b in range(Y[0].shape[2])]
    for k in range(1, len(Y)):
        G = Y[k]
        nv = []
        for b in range(G.shape[2]):
            s = 0
            for a in range(G.shape[0]):
                s = s + v[a] * G[a, idx[k], b]
            nv.append(s)
        v = nv
    return v[0]


def multi_indices(n):
    return list(itertools.product(*[range(k) for k in n]))


def well_formed(Y, n=None):
    """Structural well-formedness of a TT-tensor (independent of teneva.show)."""
    if not isinstance(Y, list) or not Y:
        return False
    r = 1
    for k, G in enumerate(Y):
        if not isinstance(G, np.ndarray) or G.ndim != 3:
            return False
        if G.shape[0] != r:
            return False
        if n is not None and G.shape[1] != n[k]:
            return False
        r = G.shape[2]
    return r == 1
