"""Command line driver: ./check <property> [--tier quick|thorough]
                          ./check --replay <file>

Runs every harness instance of the property in its own worker process
(symbolic exploration of the real /repo code), replays every solver
counterexample against the unmodified code in a fresh process, applies the
known-findings list, writes /verif/evidence/<id>.json and sets the exit code:
  0  property held on everything explored (KNOWN-FINDING / INCONCLUSIVE lines possible)
  1  at least one `VIOLATION property=<id> replay=<path>` line
  3  harness error (vacuous path, canary not refuted, worker crash)
"""
import argparse
import hashlib
import importlib
import json
import os
import shutil
import subprocess
import sys
import time

ROOT = os.path.dirname(os.path.dirname(os.path.abspath(__file__)))
PY = os.path.join(ROOT, '.venv', 'bin', 'python')

TIER_DEFAULTS = {
    'quick': {'budget_s': 120, 't_branch_ms': 5000, 't_claim_ms': 60000, 'max_paths': 3000},
    'thorough': {'budget_s': 400, 't_branch_ms': 10000, 't_claim_ms': 120000, 'max_paths': 50000, 'crosscheck': 25},
}


REPO = os.environ.get('VERIF_REPO', '/repo')
ALT = os.path.abspath(REPO) != '/repo'
# VERIF_REPO=<checkout> runs the checks against another checkout of teneva (used
# to try seeded changes in scratch worktrees); evidence/replays then go to .work/
EVID_DIR = os.path.join(ROOT, '.work', 'alt-' + os.path.basename(REPO.rstrip('/')), 'evidence') if ALT \
    else os.path.join(ROOT, 'evidence')
REPLAY_DIR = os.path.join(ROOT, '.work', 'alt-' + os.path.basename(REPO.rstrip('/')), 'replays') if ALT \
    else os.path.join(ROOT, 'replays')


def _env():
    e = dict(os.environ)
    e['PYTHONPATH'] = os.path.abspath(REPO) + os.pathsep + ROOT + os.pathsep + e.get('PYTHONPATH', '')
    e['PYTHONWARNINGS'] = 'ignore'
    e['OMP_NUM_THREADS'] = '1'
    e['OPENBLAS_NUM_THREADS'] = '1'
    e['PYTHONDONTWRITEBYTECODE'] = '1'
    return e


def load_known():
    p = os.path.join(ROOT, 'known_findings.json')
    if not os.path.exists(p):
        return []
    return json.load(open(p)).get('findings', [])


def finding_key(func, fail):
    return f"{func}/{fail['kind']}:{fail['name']}"


def run_pool(tasks, workdir, jobs):
    """tasks: list of dict(task..., hard_timeout).  Returns list of results."""
    pending = list(enumerate(tasks))
    running = {}
    results = [None] * len(tasks)
    env = _env()
    while pending or running:
        while pending and len(running) < jobs:
            i, t = pending.pop(0)
            tf = os.path.join(workdir, f'task{i}.json')
            rf = os.path.join(workdir, f'res{i}.json')
            json.dump(t, open(tf, 'w'))
            lf = open(os.path.join(workdir, f'log{i}.txt'), 'w')
            p = subprocess.Popen([PY, '-m', 'symtt.worker', tf, rf], cwd=ROOT, env=env,
                                 stdout=lf, stderr=subprocess.STDOUT)
            running[i] = (p, time.time(), t, rf, lf)
        time.sleep(0.05)
        for i in list(running):
            p, t0, t, rf, lf = running[i]
            rc = p.poll()
            if rc is None:
                if time.time() - t0 > t['hard_timeout']:
                    p.kill()
                    p.wait()
                    lf.close()
                    results[i] = {'harness': t['module'], 'func': t['func'], 'params': t['params'],
                                  'timeout': True, 'wall_s': time.time() - t0}
                    del running[i]
                continue
            lf.close()
            if os.path.exists(rf):
                try:
                    results[i] = json.load(open(rf))
                except Exception as e:   # noqa: BLE001
                    results[i] = {'harness': t['module'], 'func': t['func'], 'params': t['params'],
                                  'crash': {'type': 'BadResult', 'msg': str(e), 'tb': ''}}
            else:
                log = open(os.path.join(workdir, f'log{i}.txt')).read()[-1500:]
                results[i] = {'harness': t['module'], 'func': t['func'], 'params': t['params'],
                              'crash': {'type': 'NoResult', 'msg': f'rc={rc}', 'tb': log}}
            del running[i]
    return results


def replay_one(module, func, params, values, opts, workdir, tag):
    tf = os.path.join(workdir, f'replay-{tag}.json')
    rf = os.path.join(workdir, f'replay-{tag}.out.json')
    json.dump({'module': module, 'func': func, 'params': params, 'values': values,
               'opts': opts}, open(tf, 'w'))
    try:
        subprocess.run([PY, '-m', 'symtt.replay', tf, rf], cwd=ROOT, env=_env(),
                       stdout=subprocess.DEVNULL, stderr=subprocess.DEVNULL, timeout=600)
    except subprocess.TimeoutExpired:
        return None
    if not os.path.exists(rf):
        return None
    return json.load(open(rf))


def confirms(fail, rr):
    """Does the concrete run `rr` of the real code reproduce failure `fail`?"""
    if rr is None:
        return False, None
    bad = [c for c in rr['claims'] if not c['ok']]
    if rr.get('skipped'):
        # the concrete run stopped at an assumption made *after* the claims recorded
        # so far (assumptions are not retroactive, in the symbolic run neither): a
        # claim of the same name that failed before that point is reproduced
        if fail['kind'] == 'claim':
            for c in bad:
                if c['name'] == fail['name']:
                    return True, {'failed_claim': c['name'], 'detail': c.get('detail')}
        return False, None
    exc = rr.get('exception')
    if fail['kind'] == 'claim':
        for c in bad:
            if c['name'] == fail['name']:
                return True, {'failed_claim': c['name'], 'detail': c.get('detail')}
        if exc is not None:
            return True, {'exception': exc}
        return False, None
    if fail['kind'] == 'exception':
        if exc is not None and exc['type'] == fail['name']:
            return True, {'exception': exc}
        # the symbolic run stopped in code it cannot execute; the witness of that
        # path is a concrete input: a claim of the property failing on the real
        # code there is a reproduced violation as well
        if bad:
            return True, {'failed_claim': bad[0]['name'], 'detail': bad[0].get('detail'),
                          'note': 'symbolic run raised ' + fail['name'] + '; path witness replayed'}
        return False, None
    # engine obligation (division by zero, negative radicand, ...): the
    # property-level consequence must show on the real code
    if exc is not None:
        return True, {'exception': exc}
    if bad:
        return True, {'failed_claim': bad[0]['name']}
    return False, None


def main(argv=None):
    ap = argparse.ArgumentParser()
    ap.add_argument('prop', nargs='?')
    ap.add_argument('--tier', default=os.environ.get('VERIF_TIER', 'quick'))
    ap.add_argument('--replay')
    ap.add_argument('--jobs', type=int, default=int(os.environ.get('VERIF_JOBS', '16')))
    ap.add_argument('--only', help='substring filter on harness function names')
    ap.add_argument('--dump', action='store_true', help='keep SMT-LIB2 dumps of claim queries')
    a = ap.parse_args(argv)
    sys.path.insert(0, ROOT)
    if a.replay:
        return do_replay(a.replay)
    if not a.prop:
        ap.error('property id required')
    pid = a.prop.upper()
    tier = a.tier
    seed = int(os.environ.get('VERIF_SEED', '0'))
    t0 = time.time()
    mod_name = f'harness.{pid.lower()}'
    mod = importlib.import_module(mod_name)
    insts = mod.instances(tier)
    if a.only:
        insts = [i for i in insts if a.only in i['func']]
    workdir = os.path.join(ROOT, '.work', f'{pid}-{tier}-{os.getpid()}')
    os.makedirs(workdir, exist_ok=True)
    dump_dir = os.path.join(ROOT, '.work', f'smt-{pid}-{tier}') if a.dump else None
    tasks = []
    for inst in insts:
        opts = dict(TIER_DEFAULTS[tier])
        opts.update(getattr(mod, 'OPTS', {}))
        opts.update(inst.get('opts', {}))
        opts['seed'] = seed
        tasks.append({'module': mod_name, 'func': inst['func'], 'params': inst['params'],
                      'opts': opts, 'hard_timeout': opts['budget_s'] * 2 + 120,
                      'dump_dir': dump_dir})
    results = run_pool(tasks, workdir, a.jobs)

    known = [k for k in load_known() if k['property'] == pid]
    violations = []
    known_hits = []
    inconclusive = []
    harness_errors = []
    os.makedirs(REPLAY_DIR, exist_ok=True)
    agg = {'paths': 0, 'decisions': 0, 'validated': 0, 'claims': 0, 'discharged': 0,
           'claims_unknown': 0, 'obligations': 0, 'obligations_discharged': 0,
           'canaries_refuted': 0, 'canaries_total': 0, 'aborted_paths': 0,
           'unmodelled_paths': 0, 'instances_exhausted': 0, 'instances_partial': 0}
    functions = {}
    stubs = {}
    solver = {}
    samples = []
    assumptions = []
    inst_summ = []
    for t, r in zip(tasks, results):
        label = f"{r['func']}{json.dumps(r['params'], sort_keys=True)}"
        if r.get('crash'):
            harness_errors.append(f"worker crash in {label}: {r['crash']['type']}: {r['crash']['msg']}")
            sys.stderr.write(r['crash'].get('tb', '') + '\n')
            continue
        if r.get('timeout'):
            inconclusive.append(f'{label}: hard timeout after {r["wall_s"]:.0f}s')
            inst_summ.append({'instance': label, 'timeout': True})
            continue
        agg['paths'] += r['paths']
        agg['decisions'] += r['decisions']
        agg['validated'] += r['validated']
        agg['aborted_paths'] += r['aborted_paths']
        agg['unmodelled_paths'] += len(r['unmodelled'])
        if r['exhausted']:
            agg['instances_exhausted'] += 1
        else:
            agg['instances_partial'] += 1
            inconclusive.append(f"{label}: budget exhausted with {r['remaining_paths']} paths queued")
        if r.get('concrete_only'):
            agg['concrete_only_instances'] = agg.get('concrete_only_instances', 0) + 1
        for name, d in r['claims'].items():
            n = d['unsat'] + d['sat'] + d.get('unknown', 0)
            agg['claims'] += n
            agg['discharged'] += d['unsat']
            agg['claims_unknown'] += d.get('unknown', 0)
        for kind, d in r['obligations'].items():
            agg['obligations'] += d['unsat'] + d['sat'] + d.get('unknown', 0)
            agg['obligations_discharged'] += d['unsat']
        for name, d in r['canaries'].items():
            agg['canaries_total'] += d['refuted'] + d['not_refuted'] + d.get('unknown', 0)
            agg['canaries_refuted'] += d['refuted']
            if d['not_refuted']:
                harness_errors.append(f'canary {name} not refuted in {label}')
            if d.get('unknown'):
                inconclusive.append(f'{label}: canary {name}: solver verdict unknown on {d["unknown"]} path(s)')
        if r['vacuous_paths']:
            harness_errors.append(f"{r['vacuous_paths']} vacuous path(s) in {label}")
        if r['stub_consistency'].get('sat') or r['stub_consistency'].get('unknown'):
            inconclusive.append(f'{label}: stub consistency not proved {r["stub_consistency"]}')
        for u in r['unknown']:
            inconclusive.append(f"{label}: claim {u['name']} {u['verdict']}")
        for u in r['unmodelled']:
            inconclusive.append(f'{label}: unmodelled: {u}')
        for m in r['validation_mismatch']:
            inconclusive.append(f"{label}: concrete cross-validation disagrees: {m['failed']} {m['exception']}")
        for q, d in r['functions'].items():
            f = functions.setdefault(q, {'calls': 0, 'file': d['file'], 'line': d['line']})
            f['calls'] += d['calls']
        for k, v in r['stub_calls'].items():
            stubs[k] = stubs.get(k, 0) + v
        for k, v in r['solver'].items():
            if isinstance(v, dict):
                dd = solver.setdefault(k, {})
                for kk, vv in v.items():
                    dd[kk] = dd.get(kk, 0) + vv
            elif k == 'max_query_s':
                solver[k] = max(solver.get(k, 0), v)
            else:
                solver[k] = solver.get(k, 0) + v
        cc = r.get('crosscheck')
        if cc:
            x = agg.setdefault('crosscheck', {'agree': 0, 'inconclusive': 0, 'disagree': 0, 'by': {}})
            x['agree'] += cc['agree']
            x['inconclusive'] += cc['inconclusive']
            x['disagree'] += len(cc['disagree'])
            for k_, v_ in cc['by'].items():
                b_ = x['by'].setdefault(k_, {'agree': 0, 'disagree': 0})
                b_['agree'] += v_['agree']
                b_['disagree'] += v_['disagree']
            for dd in cc['disagree']:
                harness_errors.append(f"solver disagreement in {label}: z3 5.1 {dd['z3_5.1']} vs {dd['solver']} {dd['other']}")
        for a_ in r['assumptions']:
            if a_ not in assumptions:
                assumptions.append(a_)
        if r['sample_paths'] and len(samples) < 12:
            sp = dict(r['sample_paths'][0])
            sp['instance'] = label
            samples.append(sp)
        inst_summ.append({'instance': label, 'paths': r['paths'], 'exhausted': r['exhausted'],
                          'wall_s': r['wall_s'], 'claims': r['claims'],
                          'obligations': r['obligations'], 'failures': len(r['failures'])})
        # ---- counterexamples: replay against the real code ----------------
        # several candidates (from different paths) may exist per claim /
        # obligation: the first one that reproduces is reported
        groups = {}
        for fail in r['failures']:
            groups.setdefault((fail['kind'], fail['name']), []).append(fail)
        for (fkind, fname), fails in groups.items():
            confirmed = False
            for fi, fail in enumerate(fails):
                if fail.get('values') is None:
                    continue                    # (an instance without symbolic inputs has values == {})
                tag = hashlib.sha1((label + fkind + fname).encode()).hexdigest()[:10]
                rr = replay_one(r['harness'], r['func'], r['params'], fail['values'], t['opts'],
                                workdir, f'{tag}-{fi}')
                ok, obs = confirms(fail, rr)
                if not ok:
                    continue
                confirmed = True
                key = finding_key(r['func'], fail)
                kf = [k for k in known if k['status'] == 'known' and key.startswith(k['key'])]
                rec = {'property': pid, 'module': r['harness'], 'func': r['func'],
                       'params': r['params'], 'values': fail['values'], 'opts': t['opts'],
                       'failure': {'kind': fail['kind'], 'name': fail['name'],
                                   'detail': fail.get('detail')},
                       'observed': obs, 'key': key,
                       'replay_cmd': f'./check --replay replays/{pid}-{tag}.json'}
                if kf:
                    known_hits.append((kf[0], key))
                    break
                rp = os.path.join(REPLAY_DIR, f'{pid}-{tag}.json')
                json.dump(rec, open(rp, 'w'), indent=1, default=str)
                violations.append((rp, key, obs))
                break
            if not confirmed:
                inconclusive.append(
                    f"{label}: solver counterexample for {fkind} {fname} "
                    f"does not reproduce on the real code ({len(fails)} candidate(s) replayed)")

    # ---- report -----------------------------------------------------------
    for kf, key in known_hits:
        print(f"KNOWN-FINDING: property={pid} {kf['what']} [{key}]")
    for line in inconclusive[:40]:
        print(f'INCONCLUSIVE property={pid} {line}')
    for rp, key, obs in violations:
        print(f'VIOLATION property={pid} replay={rp}')
        print(f'  key={key} observed={json.dumps(obs, default=str)[:300]}')
    for h in harness_errors:
        print(f'HARNESS-ERROR property={pid} {h}')
    wall = time.time() - t0
    ev = {
        'property_id': pid, 'tier': tier, 'seed': seed, 'level': 'model_checking',
        'coverage': {
            'states': max(agg['paths'], 0),
            'transitions': agg['decisions'] + agg['claims'] + agg['obligations'],
            'transitions_note': 'branch decisions + solver-checked claims and engine obligations',
            'branch_decisions': agg['decisions'],
            'traces_validated_against_impl': agg['validated'],
            'samples': samples or [{'note': 'no path completed'}],
            'obligations': agg['claims'] + agg['obligations'],
            'discharged': agg['discharged'] + agg['obligations_discharged'],
            'claims': agg['claims'], 'claims_discharged': agg['discharged'],
            'claims_inconclusive': agg['claims_unknown'],
            'engine_obligations': agg['obligations'],
            'engine_obligations_discharged': agg['obligations_discharged'],
            'canaries_refuted': f"{agg['canaries_refuted']}/{agg['canaries_total']}",
            'instances': len(tasks), 'instances_exhausted': agg['instances_exhausted'],
            'instances_partial': agg['instances_partial'],
            'aborted_paths': agg['aborted_paths'], 'unmodelled_paths': agg['unmodelled_paths'],
            'concrete_only_instances': agg.get('concrete_only_instances', 0),
            'cross_solver_check': agg.get('crosscheck', 'thorough tier only'),
            'exhaustive': False,
            'bounds': getattr(mod, 'BOUNDS', {}).get(tier, ''),
            'outside_bounds': getattr(mod, 'OUTSIDE', ''),
            'functions_encoded': functions, 'environment_stubs': stubs,
            'solver': solver, 'instance_results': inst_summ,
            'inconclusive': inconclusive[:60],
            'known_findings_printed': [k for _, k in known_hits],
            'replays_written': [rp for rp, _, _ in violations],
            'technique': 'symbolic execution of the real teneva source on NumPy object arrays; '
                         'z3 decides path feasibility and every claim; counterexamples replayed',
        },
        'assumptions': (getattr(mod, 'ASSUMPTIONS', []) + assumptions)[:60],
        'wall_s': round(wall, 2), 'violations': len(violations),
    }
    os.makedirs(EVID_DIR, exist_ok=True)
    json.dump(ev, open(os.path.join(EVID_DIR, f'{pid}.json'), 'w'), indent=1, default=str)
    if not os.environ.get("SYMTT_KEEP"): shutil.rmtree(workdir, ignore_errors=True)
    print(f"{pid} {tier}: instances={len(tasks)} paths={agg['paths']} decisions={agg['decisions']} "
          f"claims={agg['discharged']}/{agg['claims']} obligations={agg['obligations_discharged']}/"
          f"{agg['obligations']} validated={agg['validated']} violations={len(violations)} "
          f"known={len(known_hits)} inconclusive={len(inconclusive)} wall={wall:.1f}s")
    if violations:
        return 1
    if harness_errors:
        return 3
    return 0


def do_replay(path):
    rec = json.load(open(path))
    workdir = os.path.join(ROOT, '.work', f'replay-{os.getpid()}')
    os.makedirs(workdir, exist_ok=True)
    rr = replay_one(rec['module'], rec['func'], rec['params'], rec['values'], rec.get('opts', {}),
                    workdir, 'x')
    if not os.environ.get("SYMTT_KEEP"): shutil.rmtree(workdir, ignore_errors=True)
    ok, obs = confirms(rec['failure'], rr)
    print(json.dumps({'reproduced': ok, 'observed': obs, 'claims': rr and rr['claims'],
                      'exception': rr and rr.get('exception')}, indent=1, default=str))
    if ok:
        print(f"VIOLATION property={rec['property']} replay={path}")
        return 1
    return 0


if __name__ == '__main__':
    sys.exit(main())
