"""Quantifier-free formulas over polynomial atoms `p op 0`."""
from fractions import Fraction
from .poly import Poly, vname, vsort

OPS = ('<', '<=', '==', '!=')
_NEG = {'<': '>=', '<=': '>', '==': '!=', '!=': '==', '>': '<=', '>=': '<'}


class Formula:
    __slots__ = ()

    def __and__(self, o):
        return And.make([self, _lift(o)])

    def __rand__(self, o):
        return And.make([_lift(o), self])

    def __or__(self, o):
        return Or.make([self, _lift(o)])

    def __ror__(self, o):
        return Or.make([_lift(o), self])

    def __invert__(self):
        return self.negate()


def _lift(x):
    if isinstance(x, Formula):
        return x
    from .sym import SymBool
    if isinstance(x, SymBool):
        return x.f
    return TRUE if bool(x) else FALSE


class BoolConst(Formula):
    __slots__ = ('v',)

    def __init__(self, v):
        self.v = bool(v)

    def negate(self):
        return FALSE if self.v else TRUE

    def vars(self):
        return frozenset()

    def eval(self, env):
        return self.v

    def smt(self, P):
        return 'true' if self.v else 'false'

    def key(self):
        return ('c', self.v)

    def __repr__(self):
        return 'true' if self.v else 'false'


TRUE = BoolConst(True)
FALSE = BoolConst(False)


class Cmp(Formula):
    """poly op 0 with op in <, <=, ==, !=, >, >=."""
    __slots__ = ('p', 'op')

    def __init__(self, p, op):
        self.p = p
        self.op = op

    @staticmethod
    def make(p, op):
        c = p.const_value()
        if c is not None:
            v = {'<': c < 0, '<=': c <= 0, '==': c == 0, '!=': c != 0,
                 '>': c > 0, '>=': c >= 0}[op]
            return TRUE if v else FALSE
        if op == '>':
            return Cmp(-p, '<')
        if op == '>=':
            return Cmp(-p, '<=')
        return Cmp(p, op)

    def negate(self):
        return Cmp.make(self.p, _NEG[self.op])

    def vars(self):
        return self.p.vars()

    def eval(self, env):
        c = self.p.eval(env)
        return {'<': c < 0, '<=': c <= 0, '==': c == 0, '!=': c != 0}[self.op]

    def smt(self, P):
        s, is_int = P.poly(self.p)
        z = '0' if is_int else '0.0'
        if self.op == '!=':
            return f'(not (= {s} {z}))'
        op = '=' if self.op == '==' else self.op
        return f'({op} {s} {z})'

    def key(self):
        return ('p', self.p, self.op)

    def __repr__(self):
        return f'({self.p!r} {self.op} 0)'


class And(Formula):
    __slots__ = ('fs',)

    def __init__(self, fs):
        self.fs = fs

    @staticmethod
    def make(fs):
        out = []
        for f in fs:
            f = _lift(f)
            if f is TRUE:
                continue
            if f is FALSE:
                return FALSE
            if isinstance(f, And):
                out.extend(f.fs)
            else:
                out.append(f)
        if not out:
            return TRUE
        if len(out) == 1:
            return out[0]
        return And(tuple(out))

    def negate(self):
        return Or.make([f.negate() for f in self.fs])

    def vars(self):
        s = frozenset()
        for f in self.fs:
            s = s | f.vars()
        return s

    def eval(self, env):
        return all(f.eval(env) for f in self.fs)

    def smt(self, P):
        return '(and ' + ' '.join(f.smt(P) for f in self.fs) + ')'

    def key(self):
        return ('and',) + tuple(f.key() for f in self.fs)

    def __repr__(self):
        return '(' + ' & '.join(map(repr, self.fs)) + ')'


class Or(Formula):
    __slots__ = ('fs',)

    def __init__(self, fs):
        self.fs = fs

    @staticmethod
    def make(fs):
        out = []
        for f in fs:
            f = _lift(f)
            if f is FALSE:
                continue
            if f is TRUE:
                return TRUE
            if isinstance(f, Or):
                out.extend(f.fs)
            else:
                out.append(f)
        if not out:
            return FALSE
        if len(out) == 1:
            return out[0]
        return Or(tuple(out))

    def negate(self):
        return And.make([f.negate() for f in self.fs])

    def vars(self):
        s = frozenset()
        for f in self.fs:
            s = s | f.vars()
        return s

    def eval(self, env):
        return any(f.eval(env) for f in self.fs)

    def smt(self, P):
        return '(or ' + ' '.join(f.smt(P) for f in self.fs) + ')'

    def key(self):
        return ('or',) + tuple(f.key() for f in self.fs)

    def __repr__(self):
        return '(' + ' | '.join(map(repr, self.fs)) + ')'


class RawCmp(Formula):
    """Comparison stated on the un-normalised term DAGs of both sides (the
    solver, not the normal form, decides it).  `nf` is the same comparison on
    normal forms, used for evaluation and variable sets."""
    __slots__ = ('op', 'a', 'b', 'nf', 'nodes')

    def __init__(self, op, a, b, nf, nodes):
        self.op = op
        self.a = a
        self.b = b
        self.nf = nf
        self.nodes = nodes

    def negate(self):
        return RawCmp(_NEG[self.op], self.a, self.b, self.nf.negate(), self.nodes)

    def _closure(self):
        seen = set()
        stack = [self.a, self.b]
        while stack:
            i = stack.pop()
            if i in seen:
                continue
            seen.add(i)
            nd = self.nodes[i]
            if nd[0] in ('+', '-', '*', '/', 'neg'):
                stack.extend(x for x in nd[1:] if x is not None)
        return seen

    def vars(self):
        vs = set(self.nf.vars())
        for i in self._closure():
            nd = self.nodes[i]
            if nd[0] == 'leaf':
                vs |= nd[1].vars()
                if nd[2] is not None:
                    vs |= nd[2].vars()
        return frozenset(vs)

    def eval(self, env):
        return self.nf.eval(env)

    def smt(self, P):
        for i in sorted(self._closure()):
            P.raw_def(i, self.nodes[i])
        op = {'==': '=', '!=': None}.get(self.op, self.op)
        if op is None:
            return f'(not (= rn{self.a} rn{self.b}))'
        return f'({op} rn{self.a} rn{self.b})'

    def key(self):
        return ('raw', self.op, self.a, self.b)

    def __repr__(self):
        return f'raw[{self.nf!r}]'


class SmtPrinter:
    """Renders polynomials as SMT-LIB2 terms; collects declarations."""

    def __init__(self):
        self.vars = set()
        self._cache = {}
        self.raw = {}

    def raw_def(self, i, nd):
        if i in self.raw:
            return
        k = nd[0]
        if k == 'leaf':
            s, is_int = self.poly(nd[1])
            if is_int:
                s = f'(to_real {s})'
            if nd[2] is not None:
                d, di = self.poly(nd[2])
                if di:
                    d = f'(to_real {d})'
                s = f'(/ {s} {d})'
            body = s
        elif k == 'neg':
            body = f'(- rn{nd[1]})'
        else:
            body = f'({k} rn{nd[1]} rn{nd[2]})'
        self.raw[i] = f'(define-fun rn{i} () Real {body})'

    @staticmethod
    def num(c, as_real):
        if type(c) is int:
            if as_real:
                return f'{c}.0' if c >= 0 else f'(- {-c}.0)'
            return str(c) if c >= 0 else f'(- {-c})'
        c = Fraction(c)
        n, d = c.numerator, c.denominator
        s = f'(/ {abs(n)}.0 {d}.0)'
        return s if n >= 0 else f'(- {s})'

    def poly(self, p):
        """Return (text, is_int)."""
        r = self._cache.get(p)
        if r is not None:
            return r
        vs = p.vars()
        self.vars |= vs
        is_int = all(vsort(v) == 'I' for v in vs) and \
            all(type(c) is int for c in p.t.values())
        terms = []
        for m, c in p.t.items():
            fac = []
            for v, e in m:
                nm = vname(v)
                if not is_int and vsort(v) == 'I':
                    nm = f'(to_real {nm})'
                fac.extend([nm] * e)
            if not fac:
                terms.append(self.num(c, not is_int))
            else:
                if c != 1:
                    fac.insert(0, self.num(c, not is_int))
                terms.append(fac[0] if len(fac) == 1 else '(* ' + ' '.join(fac) + ')')
        if not terms:
            s = '0' if is_int else '0.0'
        elif len(terms) == 1:
            s = terms[0]
        else:
            s = '(+ ' + ' '.join(terms) + ')'
        self._cache[p] = (s, is_int)
        return s, is_int

    def decls(self):
        out = []
        for v in sorted(self.vars):
            out.append(f'(declare-const {vname(v)} {"Int" if vsort(v) == "I" else "Real"})')
        for i in sorted(self.raw):
            out.append(self.raw[i])
        return out
