"""Path-exploring symbolic execution context and the concrete twin.

A *harness* is a Python function `h(ctx, **params)` that builds inputs through
`ctx`, calls real teneva functions and states claims through `ctx`.  In
symbolic mode (`Context`) inputs are solver variables and every `bool()` of a
symbolic condition is a fork (re-execution with a decision log).  In concrete
mode (`ConcreteContext`) the same harness runs on float64 with the real
NumPy / SciPy, which is how counterexamples are replayed against the
unmodified code and how paths are cross-validated.
"""
import time
import hashlib
from fractions import Fraction

from .poly import Poly, vid, vname, vsort, to_q
from .formula import (Formula, Cmp, And, Or, TRUE, FALSE, SmtPrinter, _lift, RawCmp)
from .sym import (Sym, SymBool, PathAbort, mkbool, sign_formula, eq_formula,
                  _exact_root, _factors_of)

CTX = None


class HarnessError(Exception):
    pass


class Unmodelled(Exception):
    """A call the environment model does not cover: path is inconclusive."""


# --------------------------------------------------------------------------
# solver back end
# --------------------------------------------------------------------------
class SolverStats:
    def __init__(self):
        self.n = {'sat': 0, 'unsat': 0, 'unknown': 0}
        self.by_logic = {}
        self.seconds = 0.0
        self.max_query_s = 0.0
        self.trivial = 0

    def merge_into(self, d):
        for k, v in self.n.items():
            d['queries_' + k] = d.get('queries_' + k, 0) + v
        for k, v in self.by_logic.items():
            bl = d.setdefault('queries_by_logic', {})
            bl[k] = bl.get(k, 0) + v
        d['solver_seconds'] = d.get('solver_seconds', 0.0) + self.seconds
        d['max_query_s'] = max(d.get('max_query_s', 0.0), self.max_query_s)
        d['queries_trivial'] = d.get('queries_trivial', 0) + self.trivial


STATS = SolverStats()
DUMP_DIR = None          # if set, every claim query is written there as .smt2
CROSS = {'on': False, 'left': 0, 'agree': 0, 'disagree': [], 'inconclusive': 0, 'by': {}}


def crosscheck(text, verdict):
    """Re-decide a claim query with independent solver builds (/usr/bin/z3 4.8.12
    and the cvc5 binary) under a time cap; `unknown`, timeouts and `(error` lines
    are inconclusive; a sat/unsat disagreement is recorded (harness error)."""
    import subprocess, tempfile, os
    if CROSS['left'] <= 0 or verdict not in ('sat', 'unsat'):
        return
    CROSS['left'] -= 1
    wd = os.path.join(os.path.dirname(os.path.dirname(os.path.abspath(__file__))), '.work')
    os.makedirs(wd, exist_ok=True)
    fd, path = tempfile.mkstemp(suffix='.smt2', dir=wd)
    with os.fdopen(fd, 'w') as fh:
        fh.write(text + '(check-sat)\n')
    try:
        for name, cmd in (('z3-4.8.12', ['/usr/bin/z3', '-T:10', path]),
                          ('cvc5-1.0', ['cvc5', '--tlimit=10000', path])):
            try:
                out = subprocess.run(cmd, capture_output=True, text=True, timeout=30).stdout
            except Exception:           # noqa: BLE001
                CROSS['inconclusive'] += 1
                continue
            lines = [l.strip() for l in out.split('\n') if l.strip()]
            if any(l.startswith('(error') for l in lines) or not lines or lines[0] not in ('sat', 'unsat'):
                CROSS['inconclusive'] += 1
                continue
            d = CROSS['by'].setdefault(name, {'agree': 0, 'disagree': 0})
            if lines[0] == verdict:
                CROSS['agree'] += 1
                d['agree'] += 1
            else:
                d['disagree'] += 1
                CROSS['disagree'].append({'solver': name, 'z3_5.1': verdict, 'other': lines[0], 'query': text[:2000]})
    finally:
        os.unlink(path)
_Z3 = None


def _z3():
    global _Z3
    if _Z3 is None:
        import z3
        _Z3 = z3
    return _Z3


def _val_to_q(z3, v):
    if z3.is_int_value(v):
        return v.as_long()
    if z3.is_rational_value(v):
        return Fraction(v.numerator_as_long(), v.denominator_as_long())
    if z3.is_algebraic_value(v):
        a = v.approx(40)
        return Fraction(a.numerator_as_long(), a.denominator_as_long())
    return None


def smt_text(formulas, logic=None):
    P = SmtPrinter()
    body = [f.smt(P) for f in formulas]
    vs = P.vars
    has_int = any(vsort(v) == 'I' for v in vs)
    has_real = any(vsort(v) == 'R' for v in vs)
    nonlin = any(_nonlinear(f) for f in formulas)
    if logic is None:
        if has_int and has_real:
            logic = 'QF_NIRA' if nonlin else 'QF_LIRA'
        elif has_int:
            logic = 'QF_NIA' if nonlin else 'QF_LIA'
        else:
            logic = 'QF_NRA' if nonlin else 'QF_LRA'
    lines = [f'(set-logic {logic})'] + P.decls() + [f'(assert {b})' for b in body]
    return '\n'.join(lines) + '\n', logic


def _nonlinear(f):
    if isinstance(f, RawCmp):
        return True
    if isinstance(f, Cmp):
        return f.p.total_degree() > 1
    if isinstance(f, (And, Or)):
        return any(_nonlinear(g) for g in f.fs)
    return False


def solve(formulas, timeout_ms, want_model=False, tag=''):
    """Decide the conjunction of `formulas`.  Returns (verdict, model|None)."""
    z3 = _z3()
    fs = [f for f in formulas if f is not TRUE]
    if any(f is FALSE for f in fs):
        STATS.trivial += 1
        return 'unsat', None
    if not fs:
        STATS.trivial += 1
        return 'sat', {}
    text, logic = smt_text(fs)
    t0 = time.time()
    if logic in ('QF_NRA',):
        s = z3.SolverFor('QF_NRA')
    else:
        s = z3.Solver()
    s.set('timeout', int(timeout_ms))
    # strip set-logic for the python API (solver already chosen)
    s.from_string(text.split('\n', 1)[1])
    r = s.check()
    dt = time.time() - t0
    STATS.seconds += dt
    STATS.max_query_s = max(STATS.max_query_s, dt)
    verdict = str(r)
    STATS.n[verdict] = STATS.n.get(verdict, 0) + 1
    STATS.by_logic[logic] = STATS.by_logic.get(logic, 0) + 1
    if CROSS['on'] and tag.startswith('claim'):
        crosscheck(text, verdict)
    if DUMP_DIR and tag:
        import os
        h = hashlib.sha1(text.encode()).hexdigest()[:12]
        with open(os.path.join(DUMP_DIR, f'{tag}-{h}.smt2'), 'w') as fh:
            fh.write(f'; expected: {verdict}\n' + text + '(check-sat)\n')
    model = None
    if verdict == 'sat' and want_model:
        m = s.model()
        model = {}
        for d in m.decls():
            q = _val_to_q(z3, m[d])
            if q is not None:
                model[d.name()] = q
    return verdict, model


def _fsize(f):
    """Number of monomials in a formula (size measure for the relaxation pass)."""
    if isinstance(f, Cmp):
        return len(f.p.t)
    fs = getattr(f, 'fs', None)
    if fs is not None:
        return sum(_fsize(g) for g in fs)
    return 1


def _components(formulas):
    """Partition formulas into groups connected through shared variables."""
    parent = {}

    def find(x):
        while parent.get(x, x) != x:
            parent[x] = parent.get(parent[x], parent[x])
            x = parent[x]
        return x
    fvs = []
    for f in formulas:
        vs = list(f.vars())
        fvs.append(vs)
        for v in vs:
            parent.setdefault(v, v)
        for v in vs[1:]:
            a, b = find(vs[0]), find(v)
            if a != b:
                parent[a] = b
    groups = {}
    for f, vs in zip(formulas, fvs):
        key = find(vs[0]) if vs else None
        groups.setdefault(key, []).append(f)
    return list(groups.values())


# --------------------------------------------------------------------------
# symbolic context
# --------------------------------------------------------------------------
class Context:
    mode = 'sym'

    def __init__(self, prefix=(), opts=None):
        self.opts = opts or {}
        self.t_branch = self.opts.get('t_branch_ms', 5000)
        self.t_claim = self.opts.get('t_claim_ms', 60000)
        self.pc = []                 # path condition (list of Formula)
        self.pc_keys = set()
        self.defs = {}               # atom var id -> [Formula]
        self.rewrites = {}           # var id -> (k, Sym)
        self.atom_cache = {}
        self.log = list(prefix)
        self.pos = 0
        self.alternatives = []
        self.counter = 0
        self.inputs = {}             # name -> var id
        self.input_order = []
        self.claims = []             # dicts
        self.obligations = []        # engine generated, dicts
        self.nonzero_known = set()
        self.nonneg_known = set()
        self.n_decisions = 0
        self.unknown_branches = 0
        self.generic_divisors = []
        self.robust = []             # margin versions of exponent comparisons (model extraction only)
        self.notes = []
        self.expected_raise = None
        self.monitors = []
        self.assumptions = []        # human-readable
        self.rng_audit = []
        self.var_sign = {}           # var id -> '+', '0+' (>= 0) or 'pm1'
        self.raw_on = bool(self.opts.get('raw'))
        self.fl_on = False           # rounding-error model, switched on by a harness around the code under test
        self.fl_count = 0
        self.raw_nodes = []
        self.raw_claims = 0

    # ---- rounding-error model -----------------------------------------
    def fl_delta(self):
        """1 + delta with a fresh |delta| <= 2^-53."""
        self.fl_count += 1
        d = self.fresh_real('fl')
        u = Fraction(1, 2 ** 53)
        (dv,) = d.n.vars()
        self.defs[dv] = [Cmp.make(d.n - Poly.const(u), '<='), Cmp.make(d.n + Poly.const(u), '>=')]
        return Sym(d.n + Poly.const(1))

    # ---- raw (un-normalised) term DAG ---------------------------------
    def _raw_id(self, x):
        if type(x) is Sym:
            if x.raw is not None:
                return x.raw
            self.raw_nodes.append(('leaf', x.n, x.den_poly() if x.d else None))
            x.raw = len(self.raw_nodes) - 1
            return x.raw
        self.raw_nodes.append(('leaf', Poly.const(x), None))
        return len(self.raw_nodes) - 1

    def raw_node(self, op, a, b):
        ia = self._raw_id(a)
        ib = self._raw_id(b) if b is not None else None
        self.raw_nodes.append((op, ia, ib))
        return len(self.raw_nodes) - 1

    def _raw_cmp(self, a, b, op, nf):
        a = Sym.lift(a)
        b = Sym.lift(b)
        if not self.raw_on or (a.raw is None and b.raw is None):
            return nf
        return RawCmp(op, self._raw_id(a), self._raw_id(b), nf, self.raw_nodes)

    # ---- variables -------------------------------------------------
    def _fresh_name(self, hint):
        self.counter += 1
        return f'{hint}!{self.counter}'

    def real(self, name):
        v = vid(name, 'R')
        if name not in self.inputs:
            self.inputs[name] = v
            self.input_order.append(name)
        return Sym(Poly.var(v))

    def integer(self, name):
        v = vid(name, 'I')
        if name not in self.inputs:
            self.inputs[name] = v
            self.input_order.append(name)
        return Sym(Poly.var(v))

    def fresh_real(self, hint='t'):
        return Sym(Poly.var(vid(self._fresh_name(hint), 'R')))

    def fresh_int(self, hint='k'):
        return Sym(Poly.var(vid(self._fresh_name(hint), 'I')))

    def const(self, c):
        return Sym.const(c)

    def array(self, name, shape):
        """Object ndarray of fresh real inputs name_i_j_k."""
        import numpy as np
        A = np.empty(shape, dtype=object)
        for idx in np.ndindex(*shape):
            A[idx] = self.real(name + '_' + '_'.join(map(str, idx)))
        return A

    def tt(self, name, n, r):
        """Symbolic TT-tensor: mode sizes n, ranks r (len d+1 or scalar)."""
        d = len(n)
        if isinstance(r, int):
            r = [1] + [r] * (d - 1) + [1]
        return [self.array(f'{name}{k}', (r[k], n[k], r[k + 1])) for k in range(d)]

    # ---- formulas --------------------------------------------------
    @staticmethod
    def F(x):
        return _lift(x)

    def _rel(self, a, b, op):
        a = Sym.lift(a)
        b = Sym.lift(b)
        nf = sign_formula(a - b, op)
        if self.raw_on:
            return SymBool(self._raw_cmp(a, b, op, nf))
        return mkbool(nf)

    def eq(self, a, b):
        return self._rel(a, b, '==')

    def eq_nf(self, a, b):
        """Equality on normal forms only (no raw-term query even in raw mode)."""
        return mkbool(eq_formula(a, b))

    def is_zero(self, a):
        """Exactly zero (concrete mode: no tolerance)."""
        return mkbool(eq_formula(a, 0))

    def le(self, a, b):
        return self._rel(a, b, '<=')

    def lt(self, a, b):
        return self._rel(a, b, '<')

    def ge(self, a, b):
        return self._rel(b, a, '<=')

    def gt(self, a, b):
        return self._rel(b, a, '<')

    def close(self, a, b, tol):
        """|a - b| <= tol (for values that pass through concrete float steps)."""
        d = Sym.lift(a) - Sym.lift(b)
        return mkbool(And.make([sign_formula(d - tol, '<='), sign_formula(d + tol, '>=')]))

    def all_eq(self, A, B):
        import numpy as np
        A = np.asarray(A, dtype=object)
        B = np.asarray(B, dtype=object)
        if A.shape != B.shape:
            return False
        if self.raw_on:
            fs = [self._raw_cmp(a, b, '==', eq_formula(a, b)) for a, b in zip(A.ravel(), B.ravel())]
            return SymBool(And.make(fs)) if fs else True
        fs = [eq_formula(a, b) for a, b in zip(A.ravel(), B.ravel())]
        return mkbool(And.make(fs))

    def all_(self, conds):
        return mkbool(And.make([_lift(c) for c in conds]))

    def any_(self, conds):
        return mkbool(Or.make([_lift(c) for c in conds]))

    def not_(self, c):
        return mkbool(_lift(c).negate())

    def implies(self, a, b):
        return mkbool(Or.make([_lift(a).negate(), _lift(b)]))

    # ---- solver plumbing --------------------------------------------
    def _cone(self, seed_vars):
        """Path constraints and atom definitions connected to seed_vars."""
        items = [(f, f.vars()) for f in self.pc]
        for v, fs in self.defs.items():
            for f in fs:
                items.append((f, f.vars() | {v}))
        rel = set(seed_vars)
        chosen = []
        remaining = items
        changed = True
        while changed:
            changed = False
            nxt = []
            for f, vs in remaining:
                if vs & rel:
                    chosen.append(f)
                    if not vs <= rel:
                        rel |= vs
                    changed = True
                else:
                    nxt.append((f, vs))
            remaining = nxt
        return chosen, [f for f, _ in remaining]

    def check(self, extra, timeout_ms=None, want_model=False, tag=''):
        extra = _lift(extra)
        if extra is FALSE:
            return 'unsat', None
        cone, _ = self._cone(extra.vars())
        if not want_model:
            # relaxation pass: without the large constraints (typically definitions of
            # abs / max / root atoms by big polynomials) the query is a superset of the
            # behaviours; unsat there is unsat here, anything else decides nothing
            small = [f for f in cone if _fsize(f) <= 40]
            if len(small) < len(cone):
                v, _ = solve(small + [extra], 1500, False)
                if v == 'unsat':
                    STATS.relaxed = getattr(STATS, 'relaxed', 0) + 1
                    return 'unsat', None
        return solve(cone + [extra], timeout_ms or self.t_branch, want_model, tag)

    def full_model(self, extra, timeout_ms=None):
        """A model of the whole path condition plus `extra` (cone model merged
        with a model of the disconnected rest)."""
        extra = _lift(extra)
        cone, rest = self._cone(extra.vars())
        v, m = solve(cone + [extra], timeout_ms or self.t_claim, True)
        if v != 'sat':
            return v, None
        for comp in _components(rest):
            v2, m2 = solve(comp, timeout_ms or self.t_claim, True)
            if v2 == 'unsat':
                return 'unsat', None
            if v2 == 'sat':
                for k, x in m2.items():
                    m.setdefault(k, x)
        return 'sat', m

    def _assert(self, f):
        if f is TRUE:
            return
        k = f.key()
        if k in self.pc_keys:
            return
        self.pc_keys.add(k)
        self.pc.append(f)

    # ---- branching --------------------------------------------------
    def branch(self, f):
        self.n_decisions += 1
        if self.pos < len(self.log):
            dec = self.log[self.pos]
            self.pos += 1
            if isinstance(dec, tuple):          # ('u', decision): feasibility was undecided
                self.unknown_branches += 1
                dec = dec[1]
            self._assert(f if dec else f.negate())
            return dec
        maxd = self.opts.get('max_decisions', 4000)
        if len(self.log) >= maxd:
            self.notes.append('decision limit reached')
            raise PathAbort('decision limit')
        nf = f.negate()
        vt, _ = self.check(f)
        unsure = vt == 'unknown'
        if vt == 'unsat':
            dec = False
        else:
            vf, _ = self.check(nf)
            unsure = unsure or vf == 'unknown'
            if vf == 'unsat':
                dec = True
            else:
                dec = True
                self.alternatives.append(self.log[:self.pos] + [('u', False) if unsure else False])
        if unsure:
            self.unknown_branches += 1
        self.log.append(('u', dec) if unsure else dec)
        self.pos += 1
        self._assert(f if dec else nf)
        return dec

    def concretize_int(self, x):
        """Fork over the feasible integer values of x (used by __index__)."""
        self.n_decisions += 1
        if self.pos < len(self.log):
            ent = self.log[self.pos]
            self.pos += 1
            tag, val, dec = ent
            f = eq_formula(x, val)
            if dec:
                self._assert(f)
                return val
            self._assert(f.negate())
            return self.concretize_int(x)
        v, m = self._model_for(x)
        if v != 'sat':
            raise PathAbort('cannot concretize integer')
        val = m
        f = eq_formula(x, val)
        vf, _ = self.check(f.negate())
        if vf != 'unsat':
            self.alternatives.append(self.log[:self.pos] + [('v', val, False)])
        self.log.append(('v', val, True))
        self.pos += 1
        self._assert(f)
        return val

    def _model_for(self, x):
        t = self.fresh_int('cv')
        f = eq_formula(t, x)
        cone, _ = self._cone(f.vars())
        v, m = solve(cone + [f], self.t_branch, True)
        if v != 'sat':
            return v, None
        (tv,) = t.n.vars()
        return 'sat', int(m.get(vname(tv), 0))

    # ---- assumptions / claims ---------------------------------------
    def _note_sign(self, f):
        # single-variable sign facts: -v < 0  (v > 0),  -v <= 0  (v >= 0)
        if isinstance(f, Cmp) and len(f.p.t) == 1:
            (m, c), = f.p.t.items()
            if len(m) == 1 and m[0][1] == 1 and c < 0:
                if f.op == '<':
                    self.var_sign[m[0][0]] = '+'
                elif f.op == '<=' and self.var_sign.get(m[0][0]) != '+':
                    self.var_sign[m[0][0]] = '0+'

    def assume(self, cond, text=None):
        f = _lift(cond)
        if f is FALSE:
            raise PathAbort('assumption false')
        self._note_sign(f)
        self._assert(f)
        if text:
            self.assumptions.append(text)

    def assume_feasible(self, cond):
        """Assume and abandon the path when the assumption is infeasible."""
        f = _lift(cond)
        v, _ = self.check(f)
        if v == 'unsat':
            raise PathAbort('infeasible assumption')
        self._assert(f)

    def claim(self, name, cond, detail=None):
        f = _lift(cond)
        rec = {'name': name, 'kind': 'claim'}
        if detail:
            rec['detail'] = detail
        if f is TRUE:
            rec['verdict'] = 'unsat'
            rec['trivial'] = True
            STATS.trivial += 1
        else:
            nf = f.negate()
            v, _ = self.check(nf, self.t_claim, tag='claim-' + name if (DUMP_DIR or CROSS['on']) else '')
            rec['verdict'] = v
            if v == 'sat':
                rec['model'] = self._input_values(self._best_model(nf) or {})
                rec['quality'] = self.last_model_quality
                rec['alt_models'] = self._alt_int_models(nf, rec['model'])
        self.claims.append(rec)
        return rec['verdict'] == 'unsat'

    def canary(self, name, cond):
        """A deliberately wrong claim: must be refuted (guards against vacuity
        and against an engine that proves everything)."""
        f = _lift(cond)
        v, _ = self.check(f.negate(), self.t_claim)
        self.claims.append({'name': name, 'kind': 'canary', 'verdict': v})

    def fail(self, name, detail=''):
        """Unconditional failure on this path (e.g. unexpected exception)."""
        v, m = self.full_model(TRUE)
        rec = {'name': name, 'kind': 'claim', 'verdict': 'sat' if v == 'sat' else v,
               'detail': detail}
        if m is not None:
            rec['model'] = self._input_values(m)
        self.claims.append(rec)

    def witness_model(self):
        """A model of the path condition for cross-validation, preferring generic
        values (non-zero, moderate magnitude) so that the float run is well conditioned."""
        # (only for purely real problems: z3 does not honour the timeout reliably on
        # mixed integer/real non-linear queries)
        if all(vsort(self.inputs[nm]) == 'R' for nm in self.input_order):
            # one attempt only: z3 does not always honour the timeout inside nlsat
            v, m = self.full_model(And.make(self._nice(nonzero=True)), 2000)
            if v == 'sat':
                return v, m
        return self.full_model(TRUE, self.t_claim)

    def _nice(self, nonzero=False, span=1024):
        """Preference for replayable models: every real input is 0 or has a
        magnitude in [1/span, span] (used only when a model is extracted)."""
        fs = []
        lo = Poly.const(Fraction(1, span))
        hi = Poly.const(span)
        for name in self.input_order:
            v = self.inputs[name]
            if vsort(v) != 'R':
                continue
            x = Poly.var(v)
            fs.append(Or.make(([] if nonzero else [Cmp.make(x, '==')]) + [
                               And.make([Cmp.make(lo - x, '<='), Cmp.make(x - hi, '<=')]),
                               And.make([Cmp.make(x + lo, '<='), Cmp.make(Poly.const(0) - x - hi, '<=')])]))
        return fs

    def _best_model(self, bad):
        """A model of path condition + bad, preferring replayable ones: margins on
        exponent comparisons and moderate input magnitudes first."""
        tries = []
        scales = self.__dict__.get('exp_scales') or {}
        if scales and len(scales) <= 12:
            # exponent scale variables stand for powers of two: a model in which they ARE powers
            # of two (2^-8 .. 2^8) describes the float run exactly, without margins
            p2 = [Or.make([Cmp.make(E.n - Poly.const(Fraction(2) ** k), '==') for k in range(-8, 9)])
                  for E in scales.values()]
            tries.append(p2 + self._nice(span=64))
            tries.append(p2)
        if self.robust:
            tries.append(self.robust + self._nice(span=8))
            tries.append(self.robust + self._nice())
            tries.append(list(self.robust))
        tries.append(self._nice(span=8))
        tries.append(self._nice())
        self.last_model_quality = 0
        for extra in tries:
            # (margins without magnitude preference: the last resort for replayability, given more time)
            only_margins = bool(self.robust) and len(extra) == len(self.robust)
            v, m = self.full_model(And.make([bad] + extra), self.t_claim if only_margins else self.t_branch * 2)
            if v == 'sat':
                self.last_model_quality = 1
                return m
        v, m = self.full_model(bad)
        return m if v == 'sat' else None

    def _alt_int_models(self, bad, first, n=3):
        """Further counterexamples that differ in the integer inputs (budgets, call
        numbers, positions): the float replay may need another one of them."""
        ints = [nm for nm in self.input_order if vsort(self.inputs[nm]) == 'I' and not nm.startswith('rng_')]
        if not ints:
            return []
        out = []
        block = []
        cur = first
        for _ in range(n):
            block.append(Or.make([Cmp.make(Poly.var(self.inputs[nm]) - Poly.const(int(cur[nm])), '!=')
                                  for nm in ints if nm in cur]))
            v, m = self.full_model(And.make([bad] + block), self.t_branch)
            if v != 'sat':
                break
            cur = self._input_values(m)
            out.append(cur)
        return out

    def _input_values(self, m):
        out = {}
        for i, name in enumerate(self.input_order):
            if name in m:
                out[name] = str(m[name])
            else:
                out[name] = str(Fraction((i * 7) % 11 + 1, (i % 3) + 2)) \
                    if vsort(self.inputs[name]) == 'R' else '1'
        return out

    def note(self, s):
        self.notes.append(s)

    # ---- engine-generated obligations --------------------------------
    def _obligation(self, kind, bad, what):
        """`bad` is the formula of the failure; returns after assuming not bad."""
        good = bad.negate()
        v, _ = self.check(bad)
        if v == 'unsat':
            self.obligations.append({'kind': kind, 'verdict': 'unsat'})
        else:
            rec = {'kind': kind, 'verdict': v, 'what': what}
            if v == 'sat':
                rec['model'] = self._input_values(self._best_model(bad) or {})
                rec['quality'] = self.last_model_quality
            self.obligations.append(rec)
            vg, _ = self.check(good)
            if vg == 'unsat':
                raise PathAbort(f'{kind} forced on this path')
        self._assert(good)

    def require_nonzero(self, x):
        """x: Sym about to be inverted."""
        c, fac = _factors_of(x.n)
        for f in fac:
            if f in self.nonzero_known:
                continue
            self.nonzero_known.add(f)
            if self.opts.get('generic_divisors'):
                # genericity: the finitely many quantities the run divides by
                # are assumed non-zero (listed in the evidence)
                g = Cmp.make(f, '!=')
                v, _ = self.check(g)
                if v == 'unsat':
                    raise PathAbort('divisor identically zero on this path')
                self._assert(g)
                self.generic_divisors.append(repr(f)[:120])
                continue
            self._obligation('div_by_zero', Cmp.make(f, '=='), repr(f)[:200])

    def zero_division(self, x):
        if self.opts.get('generic_divisors') and not self.opts.get('zero_divisor_is_failure'):
            self.notes.append('path abandoned: a divisor is identically zero (outside the genericity assumption)')
            raise PathAbort('divisor identically zero')
        self.obligations.append({'kind': 'div_by_zero', 'verdict': 'sat',
                                 'what': 'exact zero denominator', 'forced': True,
                                 'model': self._input_values(self.full_model(TRUE)[1] or {})})
        raise PathAbort('division by exact zero')

    def domain_error(self, fn, x):
        self.obligations.append({'kind': 'domain_' + fn, 'verdict': 'sat',
                                 'what': repr(x)[:200], 'forced': True,
                                 'model': self._input_values(self.full_model(TRUE)[1] or {})})
        raise PathAbort(f'{fn} domain error')

    # ---- atoms -------------------------------------------------------
    def register_root(self, x, k, r):
        """Declare that r is the non-negative k-th root of x (harness knows
        this by construction, e.g. x = s*s with s >= 0 assumed)."""
        self.atom_cache[('root', Sym.lift(x).key(), k)] = Sym.lift(r)

    def root(self, x, k):
        key = ('root', x.key(), k)
        r = self.atom_cache.get(key)
        if r is not None:
            return r
        c = x.const_value()
        if c is not None:
            if c < 0 and k % 2 == 0:
                self.domain_error('root', x)
            er = _exact_root(abs(c), k)
            if er is not None:
                r = Sym.const(er if c >= 0 else -er)
                self.atom_cache[key] = r
                return r
            if k == 2 and c > 0:
                # sqrt(p/q) = s sqrt(m) / q with p q = s^2 m, m square-free: one atom per
                # square-free integer (sqrt(1/2) and sqrt(2) share theirs)
                c = Fraction(c)
                pq = c.numerator * c.denominator
                sq, m, f = 1, pq, 2
                while f * f <= m and f < 10 ** 4:
                    while m % (f * f) == 0:
                        m //= f * f
                        sq *= f
                    f += 1
                if m != pq or c.denominator != 1:
                    r = self.root(Sym.const(m), 2) * Fraction(sq, c.denominator)
                    self.atom_cache[key] = r
                    return r
        if k % 2 == 0:
            kk = ('nonneg', x.key())
            if kk not in self.nonneg_known:
                self.nonneg_known.add(kk)
                self._obligation('neg_radicand', sign_formula(x, '<'), repr(x)[:200])
        t = self.fresh_real('rt')
        (tv,) = t.n.vars()
        den = x.den_poly()
        fs = [Cmp.make(t.n ** k * den - x.n, '==')]
        if k % 2 == 0:
            fs.append(Cmp.make(t.n, '>='))
        self.defs[tv] = fs
        self.rewrites[tv] = (k, x)
        if k % 2 == 0:
            self.var_sign[tv] = '0+'
        self.atom_cache[key] = t
        return t

    def abs(self, x):
        key = ('abs', x.key())
        r = self.atom_cache.get(key)
        if r is not None:
            return r
        r = self.atom_cache.get(('abs', (-x).key()))
        if r is not None:
            return r
        # syntactic shortcut: a single monomial whose variables all have a known
        # sign (assumed positive inputs, sign atoms, abs / root atoms, scales)
        sc = self._abs_monomial(x)
        if sc is not None:
            self.atom_cache[key] = sc
            return sc
        a = self.fresh_real('abs')
        (av,) = a.n.vars()
        den = x.den_poly()
        p1 = a.n * den - x.n
        p2 = a.n * den + x.n
        self.defs[av] = [Cmp.make(a.n, '>='),
                         Or.make([Cmp.make(p1, '=='), Cmp.make(p2, '==')])]
        self.rewrites[av] = (2, x * x)
        self.var_sign[av] = '0+'
        self.atom_cache[key] = a
        return a

    def _abs_monomial(self, x):
        def mono_abs(p):
            if len(p.t) != 1:
                return None
            (m, c), = p.t.items()
            out = []
            for v, e in m:
                sg = self.var_sign.get(v)
                if sg in ('+', '0+'):
                    out.append((v, e))
                elif sg == 'pm1':
                    if e % 2:
                        pass            # |s|^odd = 1
                elif e % 2 == 0:
                    out.append((v, e))
                else:
                    return None
            return Poly({tuple(out): abs(c)})
        n = mono_abs(x.n)
        if n is None:
            return None
        d = None
        if x.d:
            d = {}
            for f, m in x.d.items():
                if m % 2 == 0:
                    d[f] = m
                    continue
                fa = mono_abs(f)
                if fa is None or fa != f:
                    return None
                d[f] = m
        return Sym(n, d)

    def max_(self, xs, hint='max'):
        seen = set()
        ys = []
        for x in xs:
            x = Sym.lift(x)
            k = x.key()
            if k not in seen:
                seen.add(k)
                ys.append(x)
        xs = ys
        if len(xs) == 1:
            return xs[0]
        if all(x.is_const() for x in xs):
            return Sym.const(max(x.const_value() for x in xs))
        key = (hint, tuple(sorted((hash(x.key()) for x in xs))), len(xs))
        r = self.atom_cache.get(key)
        if r is not None and all(a.key() == b.key() for a, b in zip(r[1], xs)):
            return r[0]
        m = self.fresh_real(hint)
        (mv,) = m.n.vars()
        fs = []
        ors = []
        for x in xs:
            d = m - x if hint == 'max' else x - m
            fs.append(sign_formula(d, '>='))
            ors.append(sign_formula(d, '=='))
        fs.append(Or.make(ors))
        self.defs[mv] = fs
        self.atom_cache[key] = (m, xs)
        return m

    def min_(self, xs):
        return self.max_(xs, hint='min')

    def divmod(self, x, k):
        if type(k) is not int or k <= 0:
            raise Unmodelled('divmod by non-positive or non-integer')
        key = ('divmod', x.key(), k)
        r = self.atom_cache.get(key)
        if r is not None:
            return r
        if not x.is_int_sorted():
            raise Unmodelled('divmod of a real-sorted value')
        q = self.fresh_int('q')
        r_ = self.fresh_int('r')
        (qv,) = q.n.vars()
        (rv,) = r_.n.vars()
        f = [Cmp.make(x.n - q.n.scale(k) - r_.n, '=='),
             Cmp.make(r_.n, '>='), Cmp.make(r_.n - Poly.const(k), '<')]
        self.defs[qv] = f
        self.defs[rv] = f
        self.atom_cache[key] = (q, r_)
        return q, r_

    def floor(self, x):
        if x.is_int_sorted():
            return x
        key = ('floor', x.key())
        r = self.atom_cache.get(key)
        if r is not None:
            return r
        f = self.fresh_int('fl')
        (fv,) = f.n.vars()
        self.defs[fv] = [sign_formula(f - x, '<='), sign_formula(x - f - 1, '<')]
        self.atom_cache[key] = f
        return f

    def trunc(self, x):
        if x.is_int_sorted():
            return x
        key = ('trunc', x.key())
        r = self.atom_cache.get(key)
        if r is not None:
            return r
        t = self.fresh_int('tr')
        (tv,) = t.n.vars()
        pos = sign_formula(x, '>=')
        self.defs[tv] = [
            Or.make([pos.negate(), And.make([sign_formula(t - x, '<='), sign_formula(x - t - 1, '<')])]),
            Or.make([pos, And.make([sign_formula(t - x, '>='), sign_formula(t - 1 - x, '<')])])]
        self.atom_cache[key] = t
        return t

    def rint(self, x):
        if x.is_int_sorted():
            return x
        key = ('rint', x.key())
        r = self.atom_cache.get(key)
        if r is not None:
            return r
        t = self.fresh_int('ri')
        j = self.fresh_int('rj')
        (tv,) = t.n.vars()
        half = Fraction(1, 2)
        d = x - t
        tie = Or.make([sign_formula(d - half, '=='), sign_formula(d + half, '==')])
        self.defs[tv] = [sign_formula(d - half, '<='), sign_formula(d + half, '>='),
                         Or.make([tie.negate(), eq_formula(t, j * 2)])]
        self.atom_cache[key] = t
        return t

    def log2(self, x):
        from . import expo
        return expo.log2(self, x)

    def trig(self, fn, x):
        from . import trig
        return trig.trig(self, fn, x)

    def arccos(self, x):
        from . import trig
        return trig.arccos(self, x)

    # ---- expected exceptions ----------------------------------------
    def raises(self, exc, name, fn, *a, **kw):
        """Claim that fn(*a, **kw) raises exc on every path reaching here."""
        try:
            fn(*a, **kw)
        except exc:
            self.claims.append({'name': name, 'kind': 'claim', 'verdict': 'unsat',
                                'trivial': True})
            return True
        except Unmodelled as e:
            # the call got past its argument validation into code the engine cannot
            # execute: the rejection did not happen (the replay on the real code decides)
            self.fail(name, f'expected {exc.__name__}, call proceeded to unmodelled code: {e}')
            return False
        self.fail(name, f'expected {exc.__name__}, call returned')
        return False


# --------------------------------------------------------------------------
# concrete context (float64, real NumPy) -- replay and cross-validation
# --------------------------------------------------------------------------
class ConcreteSkip(Exception):
    """The concrete point violates an assumption of the harness."""


class ConcreteContext:
    mode = 'concrete'
    RTOL = 1e-6
    ATOL = 1e-9
    BOUND_FACTOR = 1.001

    def __init__(self, values, opts=None):
        self.values = {k: Fraction(v) for k, v in values.items()}
        # absolute tolerance follows the magnitude of the inputs (tiny inputs
        # must not be hidden by a fixed absolute tolerance)
        # comparisons are relative; an absolute tolerance (scaled by the typical
        # input magnitude) is used only when one side is exactly zero
        nz = sorted(abs(float(v)) for v in self.values.values() if v != 0 and abs(v) > Fraction(1, 10 ** 300))
        typ = nz[len(nz) // 2] if nz else 1.0
        self.ATOL0 = 1e-9 * min(1.0, typ)
        # replay of a solver counterexample: sharp (relative) comparison; cross-
        # validation of a path witness: lenient (witnesses sit on 1e-16 style
        # thresholds where float noise dominates)
        self.ATOL = 1e-300 if (opts or {}).get('strict', True) else self.ATOL0
        self.opts = opts or {}
        self.claims = []
        self.notes = []
        self.rewrites = None
        self.assumptions = []
        self.input_order = []
        self.monitors = []
        self.rng_audit = []

    def real(self, name):
        if name not in self.values:
            i = len(self.input_order)
            self.values[name] = Fraction((i * 7) % 11 + 1, (i % 3) + 2)
        if name not in self.input_order:
            self.input_order.append(name)
        v = self.values[name]
        if v != 0 and not (Fraction(1, 2 ** 1000) < abs(v) < 2 ** 1000):
            raise ConcreteSkip(f'input {name} outside the float64 range')
        return float(v)

    def integer(self, name):
        if name not in self.values:
            self.values[name] = Fraction(1)
        if name not in self.input_order:
            self.input_order.append(name)
        return int(self.values[name])

    def const(self, c):
        return float(c)

    def array(self, name, shape):
        import numpy as np
        A = np.empty(shape, dtype=float)
        for idx in np.ndindex(*shape):
            A[idx] = self.real(name + '_' + '_'.join(map(str, idx)))
        return A

    def tt(self, name, n, r):
        d = len(n)
        if isinstance(r, int):
            r = [1] + [r] * (d - 1) + [1]
        return [self.array(f'{name}{k}', (r[k], n[k], r[k + 1])) for k in range(d)]

    # tolerant comparisons
    def _tol(self, a, b):
        if a == 0 or b == 0:
            return self.ATOL0
        return self.ATOL + self.RTOL * max(abs(a), abs(b))

    def eq(self, a, b):
        a = float(a)
        b = float(b)
        if a != a or b != b:
            return False
        return abs(a - b) <= self._tol(a, b)

    def close(self, a, b, tol):
        return abs(float(a) - float(b)) <= max(tol, self._tol(float(a), float(b)))

    def eq_nf(self, a, b):
        return self.eq(a, b)

    def is_zero(self, a):
        return float(a) == 0.0

    @staticmethod
    def _ints(a, b):
        import numpy as np
        ok = lambda x: isinstance(x, (int, np.integer)) and not isinstance(x, (bool, np.bool_))
        return ok(a) and ok(b)

    def le(self, a, b):
        if self._ints(a, b):
            return int(a) <= int(b)            # (integers carry no rounding: compared exactly, strictness included)
        a = float(a)
        b = float(b)
        if a != a or b != b:
            return False
        return a <= b + self._tol(a, b)

    def lt(self, a, b):
        if self._ints(a, b):
            return int(a) < int(b)
        return self.le(a, b)

    def ge(self, a, b):
        return self.le(b, a)

    def gt(self, a, b):
        return self.lt(b, a)

    def all_eq(self, A, B):
        import numpy as np
        A = np.asarray(A, dtype=float)
        B = np.asarray(B, dtype=float)
        if A.shape != B.shape:
            return False
        if not (np.all(np.isfinite(A)) and np.all(np.isfinite(B))):
            return False
        sa = float(np.max(np.abs(A), initial=0))
        sb = float(np.max(np.abs(B), initial=0))
        tol = self.ATOL0 if min(sa, sb) == 0 else self.ATOL + self.RTOL * max(sa, sb)
        return bool(np.all(np.abs(A - B) <= tol))

    def all_(self, conds):
        return all(bool(c) for c in conds)

    def any_(self, conds):
        return any(bool(c) for c in conds)

    def not_(self, c):
        return not bool(c)

    def implies(self, a, b):
        return (not bool(a)) or bool(b)

    def assume(self, cond, text=None):
        if not bool(cond):
            raise ConcreteSkip(text or 'assumption')

    assume_feasible = assume

    def claim(self, name, cond, detail=None):
        ok = bool(cond)
        rec = {'name': name, 'kind': 'claim', 'ok': ok}
        if detail and not ok:
            rec['detail'] = detail
        self.claims.append(rec)
        return ok

    def canary(self, name, cond):
        pass

    def fail(self, name, detail=''):
        self.claims.append({'name': name, 'kind': 'claim', 'ok': False, 'detail': detail})

    def note(self, s):
        self.notes.append(s)

    def register_root(self, x, k, r):
        pass

    def _abs_monomial(self, x):
        def mono_abs(p):
            if len(p.t) != 1:
                return None
            (m, c), = p.t.items()
            out = []
            for v, e in m:
                sg = self.var_sign.get(v)
                if sg in ('+', '0+'):
                    out.append((v, e))
                elif sg == 'pm1':
                    if e % 2:
                        pass            # |s|^odd = 1
                elif e % 2 == 0:
                    out.append((v, e))
                else:
                    return None
            return Poly({tuple(out): abs(c)})
        n = mono_abs(x.n)
        if n is None:
            return None
        d = None
        if x.d:
            d = {}
            for f, m in x.d.items():
                if m % 2 == 0:
                    d[f] = m
                    continue
                fa = mono_abs(f)
                if fa is None or fa != f:
                    return None
                d[f] = m
        return Sym(n, d)

    def max_(self, xs, hint='max'):
        return max(xs) if hint == 'max' else min(xs)

    def min_(self, xs):
        return min(xs)

    def raises(self, exc, name, fn, *a, **kw):
        try:
            fn(*a, **kw)
        except exc:
            self.claims.append({'name': name, 'kind': 'claim', 'ok': True})
            return True
        self.claims.append({'name': name, 'kind': 'claim', 'ok': False,
                            'detail': f'expected {exc.__name__}'})
        return False
