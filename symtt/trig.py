"""pi, exact algebraic cosines / sines of rational multiples of pi, arccos."""
from fractions import Fraction
from .sym import Sym, sign_formula, eq_formula
from .poly import Poly, vid
from .formula import Cmp, Or, And
from .engine import Unmodelled


def pi(ctx):
    p = ctx.atom_cache.get('PI')
    if p is None:
        p = Sym(Poly.var(vid('PI', 'R')))
        (v,) = p.n.vars()
        lo = Fraction(314159265358979, 10**14)
        hi = Fraction(314159265358980, 10**14)
        ctx.defs[v] = [Cmp.make(p.n - Poly.const(lo), '>'), Cmp.make(p.n - Poly.const(hi), '<')]
        ctx.atom_cache['PI'] = p
    return p


def _sq(ctx, k):
    return ctx.root(Sym.const(k), 2)


def _cos_first(ctx, p, q):
    """cos(pi*p/q) for 0 <= p/q <= 1/2, gcd(p,q)=1."""
    if p == 0:
        return Sym.const(1)
    if (p, q) == (1, 2):
        return Sym.const(0)
    if (p, q) == (1, 3):
        return Sym.const(Fraction(1, 2))
    if (p, q) == (1, 4):
        return _sq(ctx, 2) / 2
    if (p, q) == (1, 6):
        return _sq(ctx, 3) / 2
    if (p, q) == (1, 5):
        return (_sq(ctx, 5) + 1) / 4
    if (p, q) == (2, 5):
        return (_sq(ctx, 5) - 1) / 4
    if (p, q) == (1, 12):
        return (_sq(ctx, 2) * _sq(ctx, 3) + _sq(ctx, 2)) / 4
    if (p, q) == (5, 12):
        return (_sq(ctx, 2) * _sq(ctx, 3) - _sq(ctx, 2)) / 4
    if q % 2 == 0 and q <= 64:
        # half-angle: cos(x/2) = sqrt((1 + cos x)/2) for x/2 in [0, pi/2]
        from fractions import Fraction as _F
        f2 = _F(2 * p, q)
        c = exact(ctx, 'cos', f2.numerator, f2.denominator)
        return ctx.root((c + 1) / 2, 2)
    raise Unmodelled(f'cos(pi*{p}/{q}) has no modelled closed form')


def exact(ctx, kind, num, den):
    """cos or sin of pi*num/den as an exact algebraic Sym."""
    f = Fraction(num, den)
    if kind == 'sin':
        f = Fraction(1, 2) - f
    f = f % 2                       # [0, 2)
    if f > 1:
        f = 2 - f                   # cos(2pi - x) = cos x ; now in [0, 1]
    sign = 1
    if f > Fraction(1, 2):
        f = 1 - f
        sign = -1
    key = ('cosval', f, sign)
    v = ctx.atom_cache.get(key)
    if v is None:
        v = _cos_first(ctx, f.numerator, f.denominator) * sign
        ctx.atom_cache[key] = v
        ang = f if sign == 1 else 1 - f
        ctx.atom_cache.setdefault('cos_table', {})[v.key()] = (ang, v)
    return v


def _multiple_of_pi(ctx, x):
    """If x == c*PI with rational c, return c."""
    c = x.const_value()
    if c is not None:
        return Fraction(0) if c == 0 else None
    P = pi(ctx)
    (pv,) = P.n.vars()
    if x.d is not None or len(x.n.t) != 1:
        return None
    (m, cf), = x.n.t.items()
    if m == ((pv, 1),):
        return Fraction(cf)
    return None


def trig(ctx, fn, x):
    c = _multiple_of_pi(ctx, x)
    if c is None:
        raise Unmodelled(f'{fn} of a symbolic angle')
    return exact(ctx, fn, c.numerator, c.denominator)


def arccos(ctx, x):
    """arccos(x) = PI*u, u in [0,1] strictly decreasing in x, exact at every
    cosine value produced so far."""
    P = pi(ctx)
    tab = ctx.atom_cache.get('cos_table', {})
    hit = tab.get(x.key())
    if hit is not None:
        return P * hit[0]
    c = x.const_value()
    if c is not None:
        if c == 1:
            return Sym.const(0)
        if c == -1:
            return P
        if c == 0:
            return P / 2
        if c == Fraction(1, 2):
            return P / 3
        if c == Fraction(-1, 2):
            return P * Fraction(2, 3)
    key = ('arccos', x.key())
    r = ctx.atom_cache.get(key)
    if r is not None:
        return r
    u = ctx.fresh_real('acos')
    (uv,) = u.n.vars()
    fs = [Cmp.make(u.n, '>='), Cmp.make(u.n - Poly.const(1), '<=')]
    known = [(Fraction(0), Sym.const(1)), (Fraction(1), Sym.const(-1)),
             (Fraction(1, 2), Sym.const(0))] + list(tab.values())
    seen = set()
    for ang, cv in known:
        if ang in seen:
            continue
        seen.add(ang)
        lt = sign_formula(x - cv, '<')
        gt = sign_formula(x - cv, '>')
        ua = u - ang
        fs.append(Or.make([lt.negate(), sign_formula(ua, '>')]))
        fs.append(Or.make([gt.negate(), sign_formula(ua, '<')]))
        fs.append(Or.make([Or.make([lt, gt]), sign_formula(ua, '==')]))
    # monotone w.r.t. earlier arccos atoms
    for (k2, x2k), r2 in list(ctx.atom_cache.items()) if False else []:
        pass
    others = ctx.atom_cache.setdefault('arccos_atoms', [])
    for x2, u2 in others:
        fs.append(Or.make([sign_formula(x - x2, '<').negate(), sign_formula(u - u2, '>')]))
        fs.append(Or.make([sign_formula(x - x2, '>').negate(), sign_formula(u - u2, '<')]))
    others.append((x, u))
    ctx.defs[uv] = fs
    r = P * u
    ctx.atom_cache[key] = r
    return r
