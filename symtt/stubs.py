"""Environment models for everything below teneva: LAPACK factorisations,
linear solves, norms, index helpers, DCT/DST/FFT, trigonometric functions.

Factorisations follow the "input parametrised by outputs" discipline: the
harness builds A := Q R (resp. U S V, P L U) from symbolic factors and
registers the triple with `expect`; the stub recognises the matrix it is given
(entry-wise, on normal forms, falling back to a solver query = "stub
consistency" obligation) and returns the registered factors.  Matrices with at
most one non-zero per row and column (generalised permutation patterns) have
closed forms with symbolic signs.  Anything else is `Unmodelled`.
"""
import itertools
import numpy as _np
import scipy.linalg as _spl

from .sym import Sym, SymBool, eq_formula, SymExpBase
from .formula import And, TRUE
from .poly import Poly
from . import engine
from .engine import Unmodelled


def _ctx():
    return engine.CTX


def _is_obj(a):
    return isinstance(a, _np.ndarray) and a.dtype == object


def _obj(a):
    a = _np.asarray(a)
    if a.dtype == object:
        return a
    from .npshim import to_sym_array
    return to_sym_array(a)


def count(name):
    c = _ctx()
    if c is not None:
        d = c.__dict__.setdefault('stub_calls', {})
        d[name] = d.get(name, 0) + 1


def _is_zero(x):
    return isinstance(x, Sym) and x.n.is_zero() or (not isinstance(x, Sym) and x == 0)


# ---------------------------------------------------------------------------
# registry
# ---------------------------------------------------------------------------
def expect(kind, A, factors):
    """Register that `kind`(A) returns `factors` (harness built A from them)."""
    ctx = _ctx()
    reg = ctx.__dict__.setdefault('lapack_registry', [])
    reg.append((kind, _obj(A).copy(), factors))


def _same_matrix(A, B):
    if A.shape != B.shape:
        return False
    need = []
    for a, b in zip(A.reshape(-1), B.reshape(-1)):
        a = Sym.lift(a)
        b = Sym.lift(b)
        if a.key() == b.key():
            continue
        d = a - b
        if d.n.is_zero():
            continue
        if d.is_const():
            return False
        need.append(eq_formula(a, b))
    if not need:
        return True
    # stub-consistency obligation: path condition must imply equality
    ctx = _ctx()
    v, _ = ctx.check(And.make(need).negate(), ctx.t_claim)
    if v != 'sat':        # 'sat' = simply a different matrix; only undecided comparisons are reported
        ctx.__dict__.setdefault('stub_consistency', []).append(v)
    return v == 'unsat'


def _scaled(fac, kind, lam):
    """Factors of lam * B from the factors of B (lam > 0 decided by the caller)."""
    if kind == 'qr':
        return (fac[0], fac[1] * lam)
    if kind == 'rq':
        return (fac[0] * lam, fac[1])
    if kind == 'svd':
        return (fac[0], fac[1] * lam, fac[2])
    if kind == 'eigh':
        return (fac[0] * lam, fac[1])
    return None


def _lookup(kind, A):
    ctx = _ctx()
    reg = ctx.__dict__.get('lapack_registry', [])
    for k, B, fac in reg:
        if k == kind and _same_matrix(A, B):
            return fac
    # positive multiples of a registered matrix: stabilised code paths divide
    # a core by a power-of-two scale E between two factorisations; candidates
    # are 1/E for the scale variables created so far (latest first)
    scales = list(ctx.__dict__.get('exp_scales', {}).values())[::-1]
    for E in scales:
        lam = Sym.const(1) / E
        for k, B, fac in reg:
            if k != kind or A.shape != B.shape or kind not in ('qr', 'rq', 'svd', 'eigh'):
                continue
            lam_k = lam * lam if kind == 'eigh' else lam
            if _same_matrix(A, B * lam_k):
                return _scaled(fac, kind, lam_k)
    return None


def _sign(name='sg'):
    """Symbolic sign s with s^2 = 1 (LAPACK sign conventions left open)."""
    ctx = _ctx()
    if not ctx.opts.get('symbolic_signs', True):
        return Sym.const(1)
    s = ctx.fresh_real(name)
    (v,) = s.n.vars()
    from .formula import Cmp, Or
    ctx.defs[v] = [Or.make([Cmp.make(s.n - Poly.const(1), '=='),
                            Cmp.make(s.n + Poly.const(1), '==')])]
    ctx.rewrites[v] = (2, Sym.const(1))
    ctx.var_sign[v] = 'pm1'
    return s


def _genperm(A):
    """If A has at most one syntactically non-zero entry per row and column,
    return the list of (i, j, a); else None."""
    m, n = A.shape
    ent = []
    rows, cols = set(), set()
    for i in range(m):
        for j in range(n):
            if not _is_zero(A[i, j]):
                if i in rows or j in cols:
                    return None
                rows.add(i)
                cols.add(j)
                ent.append((i, j, Sym.lift(A[i, j])))
    return ent


def _abs_sign(a):
    """(|a|, sign(a)) by a fork on the sign (no fork if the path decides it)."""
    if a > 0:
        return a, 1
    return -a, -1


def _zeros(shape):
    from .npshim import sym_full
    return sym_full(shape, 0)


# ---------------------------------------------------------------------------
# QR / RQ
# ---------------------------------------------------------------------------
def np_qr(A, mode='reduced'):
    count('np.linalg.qr')
    if mode != 'reduced':
        raise Unmodelled(f'qr mode {mode}')
    A = _obj(A)
    m, n = A.shape
    fac = _lookup('qr', A)
    if fac is not None:
        return fac[0].copy(), fac[1].copy()
    ent = _genperm(A)
    if ent is not None:
        k = min(m, n)
        colmap = {j: (i, a) for i, j, a in ent}
        if m >= n and len(ent) == n:
            Q = _zeros((m, k))
            R = _zeros((k, n))
            for j in range(n):
                i, a = colmap[j]
                s = _sign('qs')
                Q[i, j] = s
                R[j, j] = s * a
            return Q, R
        if m < n and all(j in colmap for j in range(m)):
            # leading m x m block is an invertible generalised permutation
            Q = _zeros((m, m))
            R = _zeros((m, n))
            sg = []
            for j in range(m):
                i, a = colmap[j]
                s = _sign('qs')
                sg.append((i, s))
                Q[i, j] = s
                R[j, j] = s * a
            rowof = {i: (jj, s) for jj, (i, s) in enumerate(sg)}
            for j in range(m, n):
                if j in colmap:
                    i, a = colmap[j]
                    jj, s = rowof[i]
                    R[jj, j] = s * a
            return Q, R
    # every column holds at most one non-zero entry (columns may share their row or be
    # zero: rank deficient): Householder reflectors of multiples of basis vectors are
    # signed transpositions, so Q is a signed permutation and R = Q^T A is upper
    # triangular; unused columns of Q are the remaining basis vectors
    cols = []
    single = True
    for j in range(n):
        nz = [i for i in range(m) if not _is_zero(A[i, j])]
        if len(nz) > 1:
            single = False
            break
        cols.append(nz[0] if nz else None)
    if single:
        k = min(m, n)
        Q = _zeros((m, k))
        R = _zeros((k, n))
        qcol = {}                       # row -> (column of Q, sign)
        for j in range(n):
            i = cols[j]
            if i is None:
                continue
            if i not in qcol:
                if len(qcol) >= k:
                    single = False      # more distinct rows than columns of Q: not this form
                    break
                s = _sign('qs')
                qcol[i] = (len(qcol), s)
                Q[i, len(qcol) - 1] = s
            q, s = qcol[i]
            if q > j:
                single = False
                break
            R[q, j] = s * Sym.lift(A[i, j])
        if single:
            free = [i for i in range(m) if i not in qcol]
            for q in range(len(qcol), k):
                Q[free.pop(0), q] = _sign('qs')
            return Q, R
    # columns with pairwise disjoint supports (every row holds at most one non-zero),
    # all columns non-zero, tall: Q = normalised columns, R = diag(column norms)
    if m >= n and all(sum(0 if _is_zero(A[i, j]) else 1 for j in range(n)) <= 1 for i in range(m)) and \
            all(any(not _is_zero(A[i, j]) for i in range(m)) for j in range(n)):
        Q = _zeros((m, n))
        R = _zeros((n, n))
        for j in range(n):
            nrm = Sym.lift(sum((Sym.lift(A[i, j]) * Sym.lift(A[i, j]) for i in range(m)), Sym.const(0))).sqrt()
            s_ = _sign('qs')
            for i in range(m):
                if not _is_zero(A[i, j]):
                    Q[i, j] = s_ * Sym.lift(A[i, j]) / nrm
            R[j, j] = s_ * nrm
        return Q, R
    ctx = _ctx()
    if ctx.opts.get('relaxed_qr'):
        # Q := Z, R := I  (valid whenever the caller only uses Q Q[I]^-1 and
        # Q[I] R; see DESIGN C05) -- only for tall matrices
        if m >= n:
            R = _np.empty((n, n), dtype=object)
            for i in range(n):
                for j in range(n):
                    R[i, j] = Sym.const(1 if i == j else 0)
            return A.copy(), R
        # wide: Q := I_m (exactly orthonormal), R := A
        Q = _np.empty((m, m), dtype=object)
        for i in range(m):
            for j in range(m):
                Q[i, j] = Sym.const(1 if i == j else 0)
        return Q, A.copy()
    raise Unmodelled('qr of a matrix that is neither registered nor quasi-diagonal')


def sp_rq(A, mode='full', check_finite=True, overwrite_a=False, **kw):
    if overwrite_a and isinstance(A, _np.ndarray) and A.flags.f_contiguous:
        # LAPACK works in the caller's buffer when it is Fortran-contiguous (f2py copies
        # anything else): the factors are computed from a copy, the buffer is destroyed
        res = sp_rq(A.copy(), mode, check_finite, **kw)
        _poison(A, 'a')
        return res
    count('scipy.linalg.rq')
    if mode != 'economic':
        raise Unmodelled(f'rq mode {mode}')
    if kw:
        raise Unmodelled(f'rq keywords {sorted(kw)}')
    A = _obj(A)
    m, n = A.shape
    fac = _lookup('rq', A)
    if fac is not None:
        return fac[0].copy(), fac[1].copy()
    ent = _genperm(A)
    if ent is not None:
        rowmap = {i: (j, a) for i, j, a in ent}
        if m <= n and len(ent) == m:
            R = _zeros((m, m))
            Q = _zeros((m, n))
            for i in range(m):
                j, a = rowmap[i]
                s = _sign('rs')
                Q[i, j] = s
                R[i, i] = s * a
            return R, Q
        if m > n and all(i in rowmap for i in range(m - n, m)):
            # economic: R is m x n, Q is n x n; trailing n x n block invertible
            R = _zeros((m, n))
            Q = _zeros((n, n))
            colof = {}
            for l, i in enumerate(range(m - n, m)):
                j, a = rowmap[i]
                s = _sign('rs')
                Q[l, j] = s
                R[i, l] = s * a
                colof[j] = (l, s)
            for i in range(m - n):
                if i in rowmap:
                    j, a = rowmap[i]
                    l, s = colof[j]
                    R[i, l] = s * a
            return R, Q
    # rows with pairwise disjoint supports, all rows non-zero, wide: R = diag(row norms), Q = normalised rows
    if m <= n and all(sum(0 if _is_zero(A[i, j]) else 1 for i in range(m)) <= 1 for j in range(n)) and \
            all(any(not _is_zero(A[i, j]) for j in range(n)) for i in range(m)):
        R = _zeros((m, m))
        Q = _zeros((m, n))
        for i in range(m):
            nrm = Sym.lift(sum((Sym.lift(A[i, j]) * Sym.lift(A[i, j]) for j in range(n)), Sym.const(0))).sqrt()
            s_ = _sign('rs')
            for j in range(n):
                if not _is_zero(A[i, j]):
                    Q[i, j] = s_ * Sym.lift(A[i, j]) / nrm
            R[i, i] = s_ * nrm
        return R, Q
    raise Unmodelled('rq of a matrix that is neither registered nor quasi-diagonal')


# ---------------------------------------------------------------------------
# SVD / eigh
# ---------------------------------------------------------------------------
def _sorted_desc(items, keyidx=0):
    """Sort by symbolic key, descending, via forking comparisons (insertion)."""
    out = []
    for it in items:
        pos = len(out)
        for p, o in enumerate(out):
            if it[keyidx] > o[keyidx]:
                pos = p
                break
        out.insert(pos, it)
    return out


def np_svd(A, full_matrices=True, compute_uv=True, hermitian=False):
    count('np.linalg.svd')
    if full_matrices or not compute_uv:
        raise Unmodelled('svd(full_matrices=True) / compute_uv=False')
    A = _obj(A)
    m, n = A.shape
    k = min(m, n)
    if hermitian:
        # numpy's hermitian SVD goes through eigh, which reads the lower triangle only:
        # the result is the SVD of the matrix symmetrised from its lower triangle
        if m != n:
            raise Unmodelled('hermitian svd of a non-square matrix')
        S = A.copy()
        for i in range(m):
            for j in range(i + 1, n):
                S[i, j] = A[j, i]
        A = S
    fac = _lookup('svd', A)
    if fac is not None:
        return fac[0].copy(), fac[1].copy(), fac[2].copy()
    ent = _genperm(A)
    if ent is not None:
        trip = []
        for i, j, a in ent:
            s, sg = _abs_sign(a)
            trip.append((s, i, j, sg))
        trip = _sorted_desc(trip)
        U = _zeros((m, k))
        V = _zeros((k, n))
        S = _np.empty(k, dtype=object)
        used_r = set()
        used_c = set()
        for l, (s, i, j, sg) in enumerate(trip):
            e = _sign('us')
            U[i, l] = e
            V[l, j] = e * sg
            S[l] = s
            used_r.add(i)
            used_c.add(j)
        fr = [i for i in range(m) if i not in used_r]
        fc = [j for j in range(n) if j not in used_c]
        for l in range(len(trip), k):
            S[l] = Sym.const(0)
            U[fr[l - len(trip)], l] = Sym.const(1)
            V[l, fc[l - len(trip)]] = Sym.const(1)
        return U, S, V
    # rows with pairwise disjoint supports (every column holds at most one
    # non-zero): A = D Q, D = row norms, Q = normalised rows; or the transpose
    for transposed in (False, True):
        B = A.T if transposed else A
        mb, nb = B.shape
        if all(sum(0 if _is_zero(B[i, j]) else 1 for i in range(mb)) <= 1 for j in range(nb)):
            rows = [i for i in range(mb) if any(not _is_zero(B[i, j]) for j in range(nb))]
            kb = min(mb, nb)
            if len(rows) > kb:
                continue
            items = []
            for i in rows:
                nrm = Sym.lift(sum((Sym.lift(B[i, j]) * Sym.lift(B[i, j]) for j in range(nb)), Sym.const(0))).sqrt()
                items.append((nrm, i))
            items = _sorted_desc(items)
            Ub = _zeros((mb, kb))
            Vb = _zeros((kb, nb))
            Sb = _np.empty(kb, dtype=object)
            for l, (nrm, i) in enumerate(items):
                e = _sign('us')
                Ub[i, l] = e
                Sb[l] = nrm
                for j in range(nb):
                    if not _is_zero(B[i, j]):
                        Vb[l, j] = e * Sym.lift(B[i, j]) / nrm
            # zero singular values: orthonormal completion (unused rows of U; for V a free
            # column, or a 2-column vector orthogonal to one row inside its support)
            zero_rows = [i for i in range(mb) if i not in rows]
            free_cols = [j for j in range(nb) if all(_is_zero(B[i, j]) for i in range(mb))]
            used_rows_for_completion = set()
            okc = True
            for l in range(len(items), kb):
                Sb[l] = Sym.const(0)
                Ub[zero_rows[l - len(items)], l] = Sym.const(1)
                if free_cols:
                    Vb[l, free_cols.pop(0)] = Sym.const(1)
                    continue
                done = False
                for i in rows:
                    if i in used_rows_for_completion:
                        continue
                    sup = [j for j in range(nb) if not _is_zero(B[i, j])]
                    if len(sup) >= 2:
                        j1, j2 = sup[0], sup[1]
                        b1, b2 = Sym.lift(B[i, j1]), Sym.lift(B[i, j2])
                        nn = (b1 * b1 + b2 * b2).sqrt()
                        Vb[l, j1] = b2 / nn
                        Vb[l, j2] = -b1 / nn
                        if len(sup) > 2:
                            okc = False          # not orthogonal to the full row unless support is 2
                        used_rows_for_completion.add(i)
                        done = True
                        break
                if not done:
                    okc = False
            if not okc:
                continue
            if transposed:
                return Vb.T.copy(), Sb, Ub.T.copy()
            return Ub, Sb, Vb
    raise Unmodelled('svd of a matrix that is neither registered nor quasi-diagonal')


def np_eigh(C, UPLO='L'):
    count('np.linalg.eigh')
    C = _obj(C)
    n = C.shape[0]
    fac = _lookup('eigh', C)
    if fac is not None:
        return fac[0].copy(), fac[1].copy()
    # diagonal matrices: closed form
    diag = all(_is_zero(C[i, j]) for i in range(n) for j in range(n) if i != j)
    if diag:
        items = [(Sym.lift(C[i, i]), i) for i in range(n)]
        items = _sorted_desc(items)[::-1]      # ascending
        w = _np.empty(n, dtype=object)
        U = _zeros((n, n))
        for l, (x, i) in enumerate(items):
            w[l] = x
            U[i, l] = _sign('es')
        return w, U
    raise Unmodelled('eigh of a matrix that is neither registered nor diagonal')


# ---------------------------------------------------------------------------
# determinants / solves
# ---------------------------------------------------------------------------
def det(A):
    A = _obj(A)
    n = A.shape[0]
    if n == 0:
        return Sym.const(1)
    memo = {}

    def minor(r, cols):
        # determinant of rows r..n-1 restricted to columns `cols`
        if r == n:
            return Sym.const(1)
        key = cols
        v = memo.get(key)
        if v is not None:
            return v
        tot = Sym.const(0)
        sgn = 1
        for idx, c in enumerate(cols):
            a = A[r, c]
            if not _is_zero(a):
                sub = minor(r + 1, cols[:idx] + cols[idx + 1:])
                term = Sym.lift(a) * sub
                tot = tot + term if sgn > 0 else tot - term
            sgn = -sgn
        memo[key] = tot
        return tot
    return minor(0, tuple(range(n)))


def solve_exact(A, B):
    """x with A x = B by Cramer's rule; single obligation det(A) != 0."""
    A = _obj(A)
    B = _obj(B)
    n = A.shape[0]
    vec = B.ndim == 1
    if vec:
        B = B.reshape(n, 1)
    D = det(A)
    Dinv = Sym.lift(D).inv()       # obligation: det != 0
    X = _np.empty((n, B.shape[1]), dtype=object)
    for j in range(B.shape[1]):
        for i in range(n):
            Ai = A.copy()
            Ai[:, i] = B[:, j]
            X[i, j] = det(Ai) * Dinv
    return X[:, 0] if vec else X


def np_solve(A, B):
    count('np.linalg.solve')
    return solve_exact(A, B)


def np_inv(A):
    count('np.linalg.inv')
    A = _obj(A)
    n = A.shape[0]
    I = _np.empty((n, n), dtype=object)
    for i in range(n):
        for j in range(n):
            I[i, j] = Sym.const(1 if i == j else 0)
    return solve_exact(A, I)


def _lstsq_exact(A, b):
    A = _obj(A)
    b = _obj(b)
    m, n = A.shape
    if m == n:
        return solve_exact(A, b)
    if m < n:
        raise Unmodelled('under-determined least squares')
    At = A.T
    return solve_exact(At @ A, At @ b)


def _poison(a, what):
    """LAPACK overwrite_* flags: contents of the passed buffer are destroyed."""
    if isinstance(a, _np.ndarray) and a.dtype == object and a.flags.writeable:
        ctx = _ctx()
        fo = a.reshape(-1) if a.flags.c_contiguous or a.flags.f_contiguous else None
        it = _np.nditer(a, flags=['multi_index', 'refs_ok'])
        for _ in it:
            a[it.multi_index] = ctx.fresh_real('poison')


def sp_lstsq(a, b, cond=None, overwrite_a=False, overwrite_b=False,
             check_finite=True, lapack_driver=None):
    count('scipy.linalg.lstsq')
    x = _lstsq_exact(a, b)
    if overwrite_a:
        _poison(a, 'a')
    if overwrite_b:
        _poison(b, 'b')
    return x, None, None, None


def np_lstsq(a, b, rcond=None):
    count('np.linalg.lstsq')
    a = _obj(a)
    b = _obj(b)
    if a.ndim != 2:
        raise _np.linalg.LinAlgError(f'{a.ndim}-dimensional array given. Array must be two-dimensional')
    x = _lstsq_exact(a, b)
    return x, None, None, None


def np_norm(x, ord=None, axis=None, keepdims=False):
    count('np.linalg.norm')
    x = _obj(x)
    if ord not in (None, 2, 'fro'):
        raise Unmodelled(f'norm ord={ord}')
    if ord == 2 and x.ndim != 1 and axis is None:
        raise Unmodelled('spectral norm')
    sq = x * x
    if axis is None:
        s = Sym.lift(sq.sum()) if sq.size else Sym.const(0)
        return s.sqrt()
    s = sq.sum(axis=axis)
    out = _np.empty(s.shape, dtype=object)
    fo = out.reshape(-1)
    for i, e in enumerate(s.reshape(-1)):
        fo[i] = Sym.lift(e).sqrt()
    return out


# ---------------------------------------------------------------------------
# LU, triangular solves (maxvol)
# ---------------------------------------------------------------------------
def sp_lu(a, permute_l=False, overwrite_a=False, check_finite=True, p_indices=False):
    if overwrite_a and isinstance(a, _np.ndarray) and a.dtype == object and a.flags.f_contiguous \
            and not a.flags.c_contiguous:
        # (as for rq: LAPACK factorises in the caller's buffer when it is Fortran-contiguous)
        res = sp_lu(a.copy(order='F'), permute_l, False, check_finite, p_indices)
        _poison(a, 'a')
        return res
    count('scipy.linalg.lu')
    if p_indices:
        raise Unmodelled('lu(p_indices)')
    A = _obj(a)
    fac = _lookup('lu', A)
    if fac is not None:
        if permute_l:
            return fac[0] @ fac[1], fac[2].copy()          # (P L, U)
        return fac[0].copy(), fac[1].copy(), fac[2].copy()
    raise Unmodelled('lu of an unregistered matrix')


def sp_solve_triangular(a, b, trans=0, lower=False, unit_diagonal=False,
                        overwrite_b=False, check_finite=True):
    count('scipy.linalg.solve_triangular')
    A = _obj(a)
    B = _obj(b)
    n = A.shape[0]
    if A.shape[1] != n:
        raise ValueError('expected square matrix')
    # use only the referenced triangle, like LAPACK trtrs
    T = _np.empty((n, n), dtype=object)
    for i in range(n):
        for j in range(n):
            if (lower and j <= i) or (not lower and j >= i):
                T[i, j] = Sym.lift(A[i, j])
            else:
                T[i, j] = Sym.const(0)
            if unit_diagonal and i == j:
                T[i, j] = Sym.const(1)
    if trans in (1, 'T', 2, 'C'):
        T = T.T
        lower = not lower
    elif trans not in (0, 'N'):
        raise Unmodelled(f'trans={trans}')
    vec = B.ndim == 1
    Bm = B.reshape(n, 1) if vec else B
    X = _np.empty(Bm.shape, dtype=object)
    order = range(n) if lower else range(n - 1, -1, -1)
    for c in range(Bm.shape[1]):
        for i in order:
            s = Sym.lift(Bm[i, c])
            rng = range(0, i) if lower else range(i + 1, n)
            for j in rng:
                if not _is_zero(T[i, j]):
                    s = s - T[i, j] * X[j, c]
            X[i, c] = s / T[i, i]
    return X[:, 0] if vec else X


def sp_toeplitz(c, r=None):
    return _spl.toeplitz(c, r)


# ---------------------------------------------------------------------------
# index helpers with symbolic integers
# ---------------------------------------------------------------------------
def _has_sym(x):
    from .npshim import has_sym
    return has_sym(x)


def unravel_index(indices, shape, order='C'):
    if not _has_sym(indices):
        return _np.unravel_index(indices, shape, order=order)
    count('np.unravel_index')
    idx = _np.asarray(indices, dtype=object)
    dims = list(shape) if order == 'F' else list(shape)[::-1]
    outs = []
    rem = idx
    for k in dims:
        cur = _np.empty(idx.shape, dtype=object)
        nxt = _np.empty(idx.shape, dtype=object)
        for p in _np.ndindex(*idx.shape) if idx.ndim else [()]:
            x = Sym.lift(rem[p])
            q, r = divmod(x, int(k))
            cur[p] = r
            nxt[p] = q
        outs.append(cur)
        rem = nxt
    # NumPy raises ValueError when the index is out of bounds
    ctx = _ctx()
    for p in (_np.ndindex(*idx.shape) if idx.ndim else [()]):
        if Sym.lift(rem[p]) != 0:
            raise ValueError('index is out of bounds for array with size')
        if Sym.lift(idx[p]) < 0:
            raise ValueError('negative index')
    if order != 'F':
        outs = outs[::-1]
    return tuple(outs)


def ravel_multi_index(multi_index, dims, mode='raise', order='C'):
    if not _has_sym(multi_index):
        return _np.ravel_multi_index(multi_index, dims, mode=mode, order=order)
    count('np.ravel_multi_index')
    if mode != 'raise':
        raise Unmodelled('ravel_multi_index mode')
    mi = [_np.asarray(m, dtype=object) for m in multi_index]
    dims = list(dims)
    for m_, k in zip(mi, dims):
        for x in m_.reshape(-1):
            x = Sym.lift(x)
            if x < 0:
                raise ValueError('invalid entry in coordinates array')
            if x >= k:
                raise ValueError('invalid entry in coordinates array')
    shp = mi[0].shape
    out = _np.empty(shp, dtype=object)
    out.fill(Sym.const(0))
    seq = list(zip(mi, dims))
    if order == 'F':
        stride = 1
        for m_, k in seq:
            out = out + m_ * stride
            stride *= k
    else:
        stride = 1
        for m_, k in seq[::-1]:
            out = out + m_ * stride
            stride *= k
    return out


def searchsorted(a, v, side='left', sorter=None):
    if not (_has_sym(a) or _has_sym(v)):
        return _np.searchsorted(a, v, side=side, sorter=sorter)
    count('np.searchsorted')
    a = list(_np.asarray(a, dtype=object).reshape(-1))
    if sorter is not None:
        a = [a[int(i)] for i in sorter]

    def one(z):
        # number of elements e with e < z (left) / e <= z (right)
        pos = 0
        for e in a:
            if isinstance(e, float) and e == float('-inf'):
                pos += 1
                continue
            if isinstance(e, float) and e == float('inf'):
                break
            e = Sym.lift(e)
            ok = (e <= z) if side == 'right' else (e < z)
            if ok:
                pos += 1
            else:
                break
        return pos
    if isinstance(v, _np.ndarray):
        return _np.array([one(Sym.lift(z)) for z in v.reshape(-1)], dtype=int).reshape(v.shape)
    return one(Sym.lift(v))


# ---------------------------------------------------------------------------
# trigonometric functions / rounding (delegated)
# ---------------------------------------------------------------------------
def _elementwise(method):
    def f(x, **kw):
        if isinstance(x, (Sym, SymExpBase)):
            return getattr(x, method)()
        if isinstance(x, _np.ndarray) and x.dtype == object:
            out = _np.empty(x.shape, dtype=object)
            fo = out.reshape(-1)
            for i, e in enumerate(x.reshape(-1)):
                fo[i] = getattr(Sym.lift(e), method)()
            return out
        return getattr(_np, method)(x, **kw)
    return f


np_cos = _elementwise('cos')
np_sin = _elementwise('sin')
np_arccos = _elementwise('arccos')
np_rint = _elementwise('rint')


# ---------------------------------------------------------------------------
# DCT-I / DST-I / FFT by their defining sums (exact algebraic cosines)
# ---------------------------------------------------------------------------
def _trig_table(kind, num, den):
    """cos / sin of pi*num/den as an exact Sym."""
    from . import trig
    return trig.exact(_ctx(), kind, num, den)


def sp_dct(x, type=2, n=None, axis=-1, norm=None, overwrite_x=False):
    count('scipy.fftpack.dct')
    if type != 1 or n is not None or norm is not None:
        raise Unmodelled('dct other than type 1, unnormalised')
    x_arg = x
    x = _obj(x)
    N = x.shape[axis]
    xm = _np.moveaxis(x, axis, 0)
    out = _np.empty(xm.shape, dtype=object)
    for k in range(N):
        acc = xm[0] + xm[N - 1] * ((-1) ** k)
        for j in range(1, N - 1):
            acc = acc + xm[j] * (_trig_table('cos', j * k, N - 1) * 2)
        out[k] = acc
    if overwrite_x:
        _poison(x_arg, 'x')          # documented contract: the contents of x may be destroyed
    return _np.moveaxis(out, 0, axis)


def sp_dst(x, type=2, n=None, axis=-1, norm=None, overwrite_x=False):
    count('scipy.fftpack.dst')
    if type != 1 or n is not None or norm is not None:
        raise Unmodelled('dst other than type 1, unnormalised')
    x_arg = x
    x = _obj(x)
    N = x.shape[axis]
    xm = _np.moveaxis(x, axis, 0)
    out = _np.empty(xm.shape, dtype=object)
    for k in range(N):
        acc = None
        for j in range(N):
            t = xm[j] * (_trig_table('sin', (j + 1) * (k + 1), N + 1) * 2)
            acc = t if acc is None else acc + t
        out[k] = acc
    if overwrite_x:
        _poison(x_arg, 'x')          # documented contract: the contents of x may be destroyed
    return _np.moveaxis(out, 0, axis)


class _RealPart:
    """Result of fft on real symbolic data: only `.real` is modelled."""
    def __init__(self, re):
        self.real = re


def np_fft(a, n=None, axis=-1, norm=None):
    count('np.fft.fft')
    if n is not None or norm is not None:
        raise Unmodelled('fft with n / norm')
    a = _obj(a)
    N = a.shape[axis]
    am = _np.moveaxis(a, axis, 0)
    out = _np.empty(am.shape, dtype=object)
    for k in range(N):
        acc = None
        for j in range(N):
            # real part of exp(-2 pi i j k / N) = cos(2 pi j k / N)
            t = am[j] * _trig_table('cos', 2 * j * k, N)
            acc = t if acc is None else acc + t
        out[k] = acc
    return _RealPart(_np.moveaxis(out, 0, axis))


NP_LINALG = {'qr': np_qr, 'svd': np_svd, 'eigh': np_eigh, 'norm': np_norm,
             'solve': np_solve, 'lstsq': np_lstsq, 'inv': np_inv, 'det': det}
SP_LINALG = {'rq': sp_rq, 'lstsq': sp_lstsq, 'lu': sp_lu,
             'solve_triangular': sp_solve_triangular, 'toeplitz': sp_toeplitz}
NP_FFT = {'fft': np_fft}
