"""Module-global proxies installed on the imported teneva modules while a
harness runs symbolically.  Nothing in /repo is modified: `install()` rebinds
the globals `np`, `sp`, `lu`, `solve_triangular`, `contract`, `dct`, `dst`,
`int`, `float`, `isinstance`, `print`, `tpc` of every `teneva.*` module;
`uninstall()` restores them.

The proxy forwards everything to NumPy except
  * array creation (float arrays become object arrays of exact `Sym`s so that
    no binary-float rounding enters the exact-arithmetic model),
  * functions NumPy cannot evaluate on symbolic objects (linalg, max/abs atoms,
    isinf, sqrt of concrete numbers, einsum(optimize=...), random),
which are routed to the environment models in `stubs`.
"""
import sys
import builtins
import types
import numpy as _np
import scipy as _sp

from .sym import Sym, SymBool, SymExpBase
from .poly import Poly
from . import engine


def _ctx():
    return engine.CTX


def has_sym(x):
    if isinstance(x, (Sym, SymExpBase)):
        return True
    if isinstance(x, _np.ndarray):
        if x.dtype == object:
            return True
        return False
    if isinstance(x, (list, tuple)):
        return any(has_sym(e) for e in x)
    return False


def _is_float_dtype(dt):
    if dt is None:
        return True
    if dt is float or dt is SymFloat or dt is _np.float64:
        return True
    try:
        return _np.dtype(dt).kind == 'f'
    except TypeError:
        return False


def _fix_dtype(dt):
    if dt is SymFloat:
        return float
    if dt is SymInt:
        return int
    return dt


class FArr(_np.ndarray):
    """Object array standing for a float64 array: assigning a sequence to a
    scalar slot raises like it does for a real float array (NumPy >= 2.5)."""

    def __setitem__(self, key, value):
        if (isinstance(value, _np.ndarray) and value.ndim > 0) or isinstance(value, (list, tuple)):
            try:
                tgt = _np.ndarray.__getitem__(self, key)
            except Exception:          # noqa: BLE001
                tgt = None
            if tgt is not None and not isinstance(tgt, _np.ndarray):
                raise ValueError('setting an array element with a sequence.')
        _np.ndarray.__setitem__(self, key, value)

    def astype(self, dtype, *a, **k):
        dtype = _fix_dtype(dtype)
        base = _np.asarray(self).view(_np.ndarray)
        if dtype is not None and not _is_float_dtype(dtype):
            return _from_object(base, dtype, True)
        return base.copy().view(FArr)


class IArr(_np.ndarray):
    """Object array standing for an int64 array that receives symbolic values:
    assignment truncates toward zero like the C cast does."""

    def __setitem__(self, key, value):
        ctx = _ctx()

        def tr(v):
            if isinstance(v, Sym):
                return ctx.trunc(v)
            if isinstance(v, (float, _np.floating)):
                return Sym.const(int(v))
            return v
        if isinstance(value, _np.ndarray):
            value = _np.array([tr(v) for v in value.reshape(-1)], dtype=object).reshape(value.shape)
        elif isinstance(value, (list, tuple)):
            value = _np.array([tr(v) for v in value], dtype=object)
        else:
            value = tr(value)
        _np.ndarray.__setitem__(self, key, value)


def sym_full(shape, c):
    A = _np.empty(shape, dtype=object)
    s = Sym.const(c)
    A.fill(s)
    return A.view(FArr)


def to_sym_array(a):
    """Exact object-array version of a native numeric array."""
    a = _np.asarray(a)
    if a.dtype == object:
        return a
    out = _np.empty(a.shape, dtype=object)
    flat = out.reshape(-1)
    for i, x in enumerate(a.reshape(-1)):
        flat[i] = Sym.const(x)
    return out


class SymInt(int):
    """Replacement for the builtin `int` inside teneva modules."""
    def __new__(cls, x=0, *a):
        if isinstance(x, Sym):
            c = x.const_value()
            if c is not None:
                return int(c)
            return x.trunc()
        if isinstance(x, SymExpBase):
            return x.to_int()
        if isinstance(x, _np.ndarray) and x.dtype == object and x.ndim == 0:
            return SymInt(x.item())
        return int(x, *a)


class SymFloat(float):
    """Replacement for the builtin `float` inside teneva modules."""
    def __new__(cls, x=0.0):
        if isinstance(x, (Sym, SymExpBase)):
            return x
        if isinstance(x, _np.ndarray) and x.dtype == object and x.ndim == 0:
            return SymFloat(x.item())
        return float(x)


def sym_isinstance(x, t):
    if isinstance(t, tuple):
        t2 = tuple(_fix_dtype(k) for k in t)
    else:
        t2 = _fix_dtype(t)
    if isinstance(x, Sym):
        ts = t2 if isinstance(t2, tuple) else (t2,)
        if float in ts:
            return True
        if int in ts and x.is_int_sorted():
            return True
        return False
    if isinstance(x, SymExpBase):
        ts = t2 if isinstance(t2, tuple) else (t2,)
        return int in ts or float in ts
    return isinstance(x, t2)


def sym_abs(x):
    return abs(x)


def _noop_print(*a, **k):
    pass


class _Clock:
    """perf_counter stub: arbitrary non-decreasing instants (value unused by
    any property; a constant is a valid non-decreasing sequence)."""
    def __call__(self):
        return 0.0


# ---------------------------------------------------------------------------
# numpy proxy
# ---------------------------------------------------------------------------
def _zeros(shape, dtype=None, order='C', **kw):
    dtype = _fix_dtype(dtype)
    if _is_float_dtype(dtype):
        return sym_full(shape, 0)
    return _np.zeros(shape, dtype=dtype, order=order)


def _ones(shape, dtype=None, order='C', **kw):
    dtype = _fix_dtype(dtype)
    if _is_float_dtype(dtype):
        return sym_full(shape, 1)
    return _np.ones(shape, dtype=dtype, order=order)


def _empty(shape, dtype=None, order='C', **kw):
    dtype = _fix_dtype(dtype)
    if _is_float_dtype(dtype):
        return sym_full(shape, 0)
    return _np.empty(shape, dtype=dtype, order=order)


def _full(shape, fill_value, dtype=None, **kw):
    if dtype is None and isinstance(fill_value, (int, _np.integer, bool, _np.bool_)):
        # NumPy takes the dtype from the fill value: an integer array (kept as an
        # object array that truncates what is assigned to it)
        if isinstance(fill_value, (bool, _np.bool_)):
            return _np.full(shape, fill_value)
        A = _np.empty(shape, dtype=object)
        A.fill(Sym.const(int(fill_value)))
        return A.view(IArr)
    dtype = _fix_dtype(dtype)
    if isinstance(fill_value, Sym) or _is_float_dtype(dtype):
        A = _np.empty(shape, dtype=object)
        A.fill(Sym.lift(fill_value))
        return A
    return _np.full(shape, fill_value, dtype=dtype)


def _eye(N, M=None, k=0, dtype=None, **kw):
    dtype = _fix_dtype(dtype)
    E = _np.eye(N, M, k, dtype=int)
    if _is_float_dtype(dtype):
        return to_sym_array(E)
    return E.astype(dtype)


def _identity(n, dtype=None):
    return _eye(n, dtype=dtype)


def _array(obj, dtype=None, copy=True, order='K', subok=False, ndmin=0, **kw):
    dtype = _fix_dtype(dtype)
    if isinstance(obj, _np.ndarray):
        if obj.dtype == object:
            return _from_object(obj, dtype, copy)
        if not copy:
            return _np.asarray(obj, dtype=dtype)
        return _np.array(obj, dtype=dtype, copy=True, order=order, ndmin=ndmin)
    if isinstance(obj, (Sym, SymExpBase)):
        A = _np.empty((), dtype=object)
        A[()] = obj
        # (an integer dtype request truncates a real scalar like it does for arrays)
        return _from_object(A, dtype, False) if dtype is not None else A
    if has_sym(obj):
        A = _np.array(obj, dtype=object)
        # nested Sym containers: np.array builds the right shape because Sym is
        # not a sequence
        return _from_object(A, dtype, False)
    if not copy:
        return _np.asarray(obj, dtype=dtype)
    return _np.array(obj, dtype=dtype, copy=True, order=order, ndmin=ndmin)


def _from_object(A, dtype, copy):
    if dtype is not None and not _is_float_dtype(dtype) and _np.dtype(dtype).kind in 'iu':
        # an object array that already stands for an integer array (integer-sorted
        # symbols) is returned as it is when no copy was asked for, like asarray does
        if not copy and A.size and all((isinstance(x, Sym) and x.is_int_sorted() and x.const_value() is None) or
                                       isinstance(x, SymInt) for x in A.reshape(-1)):
            return A
        # integer request: native if every entry is a constant integer
        # (the memory order of the source is kept, as astype / asarray do)
        try:
            out = _np.empty_like(A, dtype=dtype)
            for idx in _np.ndindex(A.shape):
                x = A[idx]
                if isinstance(x, Sym):
                    c = x.const_value()
                    if c is None:
                        raise ValueError
                    out[idx] = int(c)       # truncation like astype(int)
                else:
                    out[idx] = int(x)
            return out
        except ValueError:
            out = _np.empty_like(A, dtype=object)
            for idx in _np.ndindex(A.shape):
                out[idx] = SymInt(A[idx])
            return out
    if dtype is not None and _np.dtype(dtype).kind == 'b':
        return _np.array([bool(x) for x in A.reshape(-1)], dtype=bool).reshape(A.shape)
    return A.copy() if copy else A


def _asarray(obj, dtype=None, order=None, **kw):
    return _array(obj, dtype=dtype, copy=False)


def _asanyarray(obj, dtype=None, order=None, **kw):
    return _array(obj, dtype=dtype, copy=False)


def _copy(a, *args, **kw):
    return _np.array(a, copy=True) if not isinstance(a, _np.ndarray) else a.copy()


def _unique(ar, return_index=False, return_inverse=False, return_counts=False, axis=None, **kw):
    if isinstance(ar, _np.ndarray) and ar.dtype == object:
        vals = []
        ok = True
        for x in ar.reshape(-1):
            c = x.const_value() if isinstance(x, Sym) else x
            if c is None:
                ok = False
                break
            vals.append(c)
        if not ok:
            # symbolic entries: NumPy's own sort-based unique on objects (comparisons fork)
            return _np.unique(ar, return_index, return_inverse, return_counts, axis=axis, **kw)
        isint = all(float(v) == int(v) for v in vals)
        nat = _np.array([int(v) if isint else float(v) for v in vals]).reshape(ar.shape)
        return _np.unique(nat, return_index, return_inverse, return_counts, axis=axis, **kw)
    return _np.unique(ar, return_index, return_inverse, return_counts, axis=axis, **kw)


def _linspace(start, stop, num=50, endpoint=True, **kw):
    num = int(num)
    out = _np.empty(num, dtype=object)
    start = Sym.lift(start)
    stop = Sym.lift(stop)
    div = (num - 1) if endpoint else num
    for i in range(num):
        out[i] = start + (stop - start) * i / div if div else start
    return out


def _map(fn, x):
    if isinstance(x, _np.ndarray):
        out = _np.empty(x.shape, dtype=object)
        fo = out.reshape(-1)
        for i, e in enumerate(x.reshape(-1)):
            fo[i] = fn(e)
        return out
    return fn(x)


def _sqrt(x, **kw):
    def f(e):
        if isinstance(e, SymExpBase):
            return e.sqrt()
        return Sym.lift(e).sqrt()
    return _map(f, x if isinstance(x, (_np.ndarray, Sym, SymExpBase)) else
                (_np.asarray(x) if isinstance(x, (list, tuple)) else x))


def _abs(x, **kw):
    if isinstance(x, _np.ndarray) and x.dtype != object:
        return _np.abs(x)
    return _map(lambda e: abs(e), x)


def _isinf(x, **kw):
    if isinstance(x, (Sym, SymExpBase)):
        return False
    if isinstance(x, _np.ndarray) and x.dtype == object:
        return _np.zeros(x.shape, dtype=bool)
    return _np.isinf(x)


def _isnan(x, **kw):
    if isinstance(x, (Sym, SymExpBase)):
        return False
    if isinstance(x, _np.ndarray) and x.dtype == object:
        return _np.zeros(x.shape, dtype=bool)
    return _np.isnan(x)


def _isfinite(x, **kw):
    if isinstance(x, (Sym, SymExpBase)):
        return True
    if isinstance(x, _np.ndarray) and x.dtype == object:
        return _np.ones(x.shape, dtype=bool)
    return _np.isfinite(x)


def _reduce_atom(kind):
    def f(a, axis=None, initial=None, **kw):
        if isinstance(a, (list, tuple)) and has_sym(a):
            a = _array(a)
        if not (isinstance(a, _np.ndarray) and a.dtype == object):
            return getattr(_np, kind)(a, axis=axis, **kw)
        ctx = _ctx()
        red = ctx.max_ if kind == 'max' else ctx.min_
        if axis is None:
            xs = list(a.reshape(-1))
            if initial is not None:
                xs.append(initial)
            return red(xs)
        out = _np.apply_along_axis(lambda v: _wrap0(red(list(v))), axis, a)
        return out
    return f


def _wrap0(x):
    A = _np.empty((), dtype=object)
    A[()] = x
    return A


def _maximum(a, b, **kw):
    if not (has_sym(a) or has_sym(b)):
        return _np.maximum(a, b, **kw)
    ctx = _ctx()
    a2, b2 = _np.broadcast_arrays(_np.asarray(a, dtype=object), _np.asarray(b, dtype=object))
    out = _np.empty(a2.shape, dtype=object)
    fo = out.reshape(-1)
    for i, (x, y) in enumerate(zip(a2.reshape(-1), b2.reshape(-1))):
        x = Sym.lift(x)
        y = Sym.lift(y)
        # maximum(p, 0)-style: if the path decides the order use it, else a fork-free atom
        if not x.is_const() or not y.is_const():
            v1, _ = ctx.check(x < y) if not isinstance(x < y, bool) else (('unsat', None) if not (x < y) else ('sat', None))
            if v1 == 'unsat':
                fo[i] = x
                continue
        fo[i] = ctx.max_([x, y])
    return out if out.ndim else out.item()


def _minimum(a, b, **kw):
    if not (has_sym(a) or has_sym(b)):
        return _np.minimum(a, b, **kw)
    ctx = _ctx()
    a2, b2 = _np.broadcast_arrays(_np.asarray(a, dtype=object), _np.asarray(b, dtype=object))
    out = _np.empty(a2.shape, dtype=object)
    fo = out.reshape(-1)
    for i, (x, y) in enumerate(zip(a2.reshape(-1), b2.reshape(-1))):
        fo[i] = ctx.min_([Sym.lift(x), Sym.lift(y)])
    return out if out.ndim else out.item()


def _einsum(*args, **kw):
    kw.pop('optimize', None)
    out = kw.pop('out', None)
    if any(has_sym(a) for a in args):
        args = [(_np.asarray(a, dtype=object) if isinstance(a, _np.ndarray) or
                 isinstance(a, (list, tuple)) else a) for a in args]
    r = _np.einsum(*args, **kw)
    if out is not None:
        out[...] = r
        return out
    return r


def _contract(*args, **kw):
    """opt_einsum.contract on object arrays -> numpy.einsum (same semantics)."""
    return _einsum(*args, **kw)


def _log2(x, **kw):
    if isinstance(x, Sym):
        return x.log2()
    if isinstance(x, SymExpBase):
        raise engine.Unmodelled('log2 of exponent expression')
    return _np.log2(x, **kw)


def _floor(x, **kw):
    if isinstance(x, (Sym, SymExpBase)):
        return x.floor()
    return _np.floor(x, **kw)


def _ceil(x, **kw):
    if isinstance(x, (Sym, SymExpBase)):
        return x.ceil()
    return _np.ceil(x, **kw)


def _item_float(x):
    return x


class _LinalgProxy:
    def __init__(self, real, table):
        self._real = real
        self._table = table

    def __getattr__(self, name):
        f = self._table.get(name)
        if f is not None:
            return f
        return getattr(self._real, name)


class _RandomProxy:
    """Global `np.random.*`: any use is recorded by the RNG audit (C10)."""
    def __getattr__(self, name):
        from . import stubs_rng
        if name == 'default_rng':
            return stubs_rng.default_rng
        return stubs_rng.global_random(name)


def _arange_exact(*a, dtype=None, **kw):
    """np.arange without an integer dtype request: exact constants, so that
    float arithmetic on the result (2./(1-k**2), k*pi/(n-1)) stays exact."""
    dtype = _fix_dtype(dtype)
    if dtype is not None or any(isinstance(x, float) for x in a):
        return _np.arange(*a, dtype=dtype, **kw)
    return to_sym_array(_np.arange(*a, **kw))


EXACT_ARANGE_MODULES = ('teneva.func', 'teneva.func_full')


def _isclose(a, b, rtol=1.e-05, atol=1.e-08, equal_nan=False):
    """|a - b| <= atol + rtol |b| elementwise (decided per element: forks)."""
    if not (has_sym(a) or has_sym(b)):
        return _np.isclose(a, b, rtol=rtol, atol=atol, equal_nan=equal_nan)
    a2, b2 = _np.broadcast_arrays(_np.asarray(a, dtype=object), _np.asarray(b, dtype=object))
    out = _np.empty(a2.shape, dtype=bool)
    for idx in _np.ndindex(a2.shape):
        x, y = Sym.lift(a2[idx]), Sym.lift(b2[idx])
        out[idx] = bool(abs(x - y) <= abs(y) * rtol + atol)
    return out


def _allclose(a, b, rtol=1.e-05, atol=1.e-08, equal_nan=False):
    return bool(_np.all(_isclose(a, b, rtol, atol, equal_nan)))


class NPProxy:
    def __init__(self, modname=''):
        from . import stubs
        self._over = {
            'zeros': _zeros, 'ones': _ones, 'empty': _empty, 'full': _full,
            'eye': _eye, 'identity': _identity, 'array': _array,
            'asarray': _asarray, 'asanyarray': _asanyarray, 'copy': _copy,
            'linspace': _linspace, 'unique': _unique, 'sqrt': _sqrt, 'abs': _abs, 'absolute': _abs,
            'isinf': _isinf, 'isnan': _isnan, 'isfinite': _isfinite, 'isclose': _isclose, 'allclose': _allclose,
            'max': _reduce_atom('max'), 'min': _reduce_atom('min'),
            'amax': _reduce_atom('max'), 'amin': _reduce_atom('min'),
            'maximum': _maximum, 'minimum': _minimum,
            'einsum': _einsum, 'log2': _log2, 'floor': _floor, 'ceil': _ceil,
            'unravel_index': stubs.unravel_index,
            'ravel_multi_index': stubs.ravel_multi_index,
            'searchsorted': stubs.searchsorted,
            'cos': stubs.np_cos, 'sin': stubs.np_sin, 'arccos': stubs.np_arccos,
            'rint': stubs.np_rint,
        }
        if modname in EXACT_ARANGE_MODULES:
            self._over['arange'] = _arange_exact
        self.linalg = _LinalgProxy(_np.linalg, stubs.NP_LINALG)
        self.random = _RandomProxy()
        self.fft = _LinalgProxy(_np.fft, stubs.NP_FFT)

    @property
    def pi(self):
        from . import trig
        return trig.pi(_ctx())

    def __getattr__(self, name):
        f = self._over.get(name)
        if f is not None:
            return f
        real = getattr(_np, name)
        if callable(real) and not isinstance(real, type):
            def fwd(*a, **k):
                if 'dtype' in k:
                    k['dtype'] = _fix_dtype(k['dtype'])
                return real(*a, **k)
            fwd.__name__ = name
            return fwd
        return real


class SPProxy:
    def __init__(self):
        from . import stubs
        self.linalg = _LinalgProxy(_sp.linalg, stubs.SP_LINALG)

    def __getattr__(self, name):
        return getattr(_sp, name)


_SAVED = {}
_INSTALLED = False


def _teneva_modules():
    import teneva  # noqa: F401  (import before patching)
    return [m for n, m in sys.modules.items()
            if (n == 'teneva' or n.startswith('teneva.')) and isinstance(m, types.ModuleType)]


def install():
    """Rebind module globals of all teneva modules to the proxies."""
    global _INSTALLED
    if _INSTALLED:
        return
    from . import stubs
    spx = SPProxy()
    repl = {
        'np': None, 'sp': spx,
        'lu': stubs.sp_lu, 'solve_triangular': stubs.sp_solve_triangular,
        'contract': _contract, 'dct': stubs.sp_dct, 'dst': stubs.sp_dst,
        'tpc': _Clock(),
    }
    always = {'int': SymInt, 'float': SymFloat, 'isinstance': sym_isinstance,
              'print': _noop_print}
    for m in _teneva_modules():
        if m.__name__ == 'teneva':
            continue
        d = m.__dict__
        for k, v in repl.items():
            if k in d:
                _SAVED[(m.__name__, k)] = d[k]
                d[k] = NPProxy(m.__name__) if k == 'np' else v
        for k, v in always.items():
            _SAVED[(m.__name__, k)] = d.get(k, _MISSING)
            d[k] = v
    _INSTALLED = True


_MISSING = object()


def uninstall():
    global _INSTALLED
    if not _INSTALLED:
        return
    for (mn, k), v in _SAVED.items():
        d = sys.modules[mn].__dict__
        if v is _MISSING:
            d.pop(k, None)
        else:
            d[k] = v
    _SAVED.clear()
    _INSTALLED = False
