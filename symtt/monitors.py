"""Call monitors wrapped around every function of the imported teneva modules
while a harness runs: which functions of /repo were executed (evidence), and
hooks for the cross-cutting properties C09 (no mutation / no aliasing)."""
import sys
import types
import inspect

CALLS = {}           # qualified name -> count
FUNCS = {}           # qualified name -> (file, first line)
HOOKS = []           # callables (phase, qualname, fn, args, kwargs, result)
_WRAPPED = {}
_INSTALLED = False


def _wrap(qual, fn):
    def w(*a, **k):
        CALLS[qual] = CALLS.get(qual, 0) + 1
        if HOOKS:
            tok = [h('pre', qual, fn, a, k, None) for h in HOOKS]
            r = fn(*a, **k)
            for h, t in zip(HOOKS, tok):
                h('post', qual, fn, a, k, (t, r))
            return r
        return fn(*a, **k)
    w.__name__ = getattr(fn, '__name__', 'f')
    w.__doc__ = fn.__doc__
    w.__wrapped__ = fn
    w.__defaults__ = None
    return w


def install():
    global _INSTALLED
    if _INSTALLED:
        return
    import teneva
    mods = [m for n, m in sys.modules.items() if n.startswith('teneva.') and isinstance(m, types.ModuleType)]
    repl = {}
    for m in mods:
        for name, obj in list(m.__dict__.items()):
            if isinstance(obj, types.FunctionType) and obj.__module__ == m.__name__:
                qual = f'{m.__name__}.{name}'
                try:
                    FUNCS[qual] = (inspect.getsourcefile(obj), obj.__code__.co_firstlineno)
                except TypeError:
                    FUNCS[qual] = (None, 0)
                w = _wrap(qual, obj)
                repl[id(obj)] = w
                _WRAPPED[(m.__name__, name)] = obj
                m.__dict__[name] = w
    for name, obj in list(teneva.__dict__.items()):
        w = repl.get(id(obj))
        if w is not None:
            _WRAPPED[('teneva', name)] = obj
            teneva.__dict__[name] = w
    _INSTALLED = True


def uninstall():
    global _INSTALLED
    if not _INSTALLED:
        return
    for (mn, name), obj in _WRAPPED.items():
        sys.modules[mn].__dict__[name] = obj
    _WRAPPED.clear()
    _INSTALLED = False


def executed():
    return {q: {'calls': c, 'file': FUNCS[q][0], 'line': FUNCS[q][1]} for q, c in CALLS.items()}
