#!/usr/bin/env python3
"""Regenerates MANIFEST.json from the per-property table below."""
import json, os
ROOT = os.path.dirname(os.path.abspath(__file__))
BASE = "cd /repo && /venv/bin/python -m pytest -ra -q -p no:cacheprovider --timeout=900 --continue-on-collection-errors"
TECH = "symbolic execution of the real teneva source on NumPy object arrays of solver terms (own engine symtt); z3 decides path feasibility and every claim within enumerated shape bounds; counterexamples replayed on unmodified code"
NOTE = ("Exact real arithmetic (IEEE rounding outside the claim unless stated); shapes/ranks enumerated up to the bounds "
        "listed in the evidence; LAPACK/RNG/FFT replaced by contract models listed in the evidence (environment_stubs); "
        "trusted: z3 5.1, NumPy object-array semantics, the symtt normaliser (cross-checked by raw-term queries).")

CLAIMED = {}
NA = {}

def load():
    import importlib.util, glob
    for f in sorted(glob.glob(os.path.join(ROOT, 'harness', 'c[0-9][0-9].py'))):
        pid = os.path.basename(f)[:-3].upper()
        src = open(f).read()
        doc = src.split('"""')[1].strip().split('\n')[0] if '"""' in src else pid
        CLAIMED[pid] = doc

def main():
    load()
    props = [json.loads(l) for l in open(os.path.join(ROOT, 'properties.jsonl'))]
    na_reasons = json.load(open(os.path.join(ROOT, 'not_applicable.json'))) if os.path.exists(os.path.join(ROOT, 'not_applicable.json')) else {}
    checks, na = [], []
    for p in props:
        pid = p['id']
        if pid in CLAIMED and pid not in na_reasons:
            checks.append({
                "property_id": pid,
                "quick_cmd": f"./check {pid} --tier quick",
                "thorough_cmd": f"./check {pid} --tier thorough",
                "evidence_file": f"/verif/evidence/{pid}.json",
                "replay_cmd_template": "./check --replay {path}",
                "engine": "symtt",
                "level_claimed": {"category": "model_checking",
                                  "text": "Bounded symbolic model checking of the real code: every path of the real teneva functions over symbolic values (within enumerated shapes) is explored, each claim of the property is discharged by z3 or refuted with a replayed counterexample.",
                                  "design_ref": f"DESIGN.md section 8, {pid}"},
                "level_note": NOTE,
                "technique": TECH,
            })
        else:
            na.append({"property_id": pid, "reason": na_reasons.get(pid, "harness not built yet in this session (see DESIGN.md section 8 for the plan)")})
    man = {
        "version": 1,
        "setup_cmd": "./bootstrap_env.sh",
        "hooks": {"guard": "TENEVA_VERIF", "enable": "no source hooks: interception is by rebinding module globals of the imported teneva modules at run time (symtt/npshim.py)",
                  "baseline_off_cmd": BASE, "source_commits": [], "add_only": True},
        "engines": [{"name": "symtt", "path": "/verif/symtt", "serves_properties": sorted(CLAIMED),
                     "kind_free_text": "symbolic executor for NumPy code: object arrays of normalised rational functions, fork-on-branch path exploration by re-execution, z3 back end, concrete replay twin"}],
        "checks": checks,
        "not_applicable": na,
        "notes": "Exit 0 = held on everything explored; 1 = VIOLATION line with replay file; 3 = harness error. KNOWN-FINDING and INCONCLUSIVE lines do not change the exit code.",
    }
    json.dump(man, open(os.path.join(ROOT, 'MANIFEST.json'), 'w'), indent=1)
    print(f'{len(checks)} checks, {len(na)} not applicable')

main()
