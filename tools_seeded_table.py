#!/usr/bin/env python3
"""Builds the seeded-change table of DESIGN.md section 13 from /verif/seeded/*/meta.json."""
import json, os, glob, re
ROOT = os.path.dirname(os.path.abspath(__file__))
NOTES = json.load(open(os.path.join(ROOT, 'seeded', 'NOTES.json'))) if os.path.exists(os.path.join(ROOT, 'seeded', 'NOTES.json')) else {}
rows = []
for d in sorted(glob.glob(os.path.join(ROOT, 'seeded', 'C*'))):
    name = os.path.basename(d)
    mp = os.path.join(d, 'meta.json')
    if not os.path.exists(mp):
        continue
    m = json.load(open(mp))
    first = None
    fp = os.path.join(d, 'meta_first.json')
    if os.path.exists(fp):
        first = json.load(open(fp)).get('caught_by')
    note = NOTES.get(name, {})
    what = note.get('what', '')
    if not what and os.path.exists(os.path.join(d, 'notes.md')):
        txt = open(os.path.join(d, 'notes.md')).read()
        what = re.sub(r'\s+', ' ', txt)[:110]
    caught = m.get('caught_by', [])
    keys = []
    for c, r in m.get('checks', {}).items():
        for k in r.get('keys', [])[:1]:
            mm = re.search(r'key=([^ ]+)', k)
            if mm:
                keys.append(mm.group(1))
    fc = note.get('first')
    if fc is None and first is not None:
        fc = 'yes' if first else 'no'
    rows.append((name, what, fc or '?', ', '.join(caught) if caught else 'NOT caught', note.get('added', ''), (keys or [''])[0]))
out = ['| change | what it does | first | caught by (now) | strengthening / reason | deciding claim |', '|---|---|---|---|---|---|']
for r in rows:
    out.append('| ' + ' | '.join(x.replace('|', '/') for x in r) + ' |')
n_c = sum(1 for r in rows if r[3] != 'NOT caught')
out.append('')
out.append(f'{n_c} of {len(rows)} seeded changes are caught by the committed checks; the ones not caught are explained in the table and in section 10.')
txt = '\n'.join(out)
p = os.path.join(ROOT, 'DESIGN.md')
s = open(p).read()
a = s.index('<!-- SEEDED-TABLE-BEGIN -->') if '<!-- SEEDED-TABLE-BEGIN -->' in s else None
if a is None:
    s = s.replace('SEEDED_TABLE_PLACEHOLDER', '<!-- SEEDED-TABLE-BEGIN -->\n' + txt + '\n<!-- SEEDED-TABLE-END -->')
else:
    b = s.index('<!-- SEEDED-TABLE-END -->')
    s = s[:a] + '<!-- SEEDED-TABLE-BEGIN -->\n' + txt + '\n' + s[b:]
open(p, 'w').write(s)
print(f'{n_c}/{len(rows)} caught')
