"""C16 - stabilised arithmetic stays finite and correct where plain floats overflow."""
import itertools
from fractions import Fraction
import numpy as np
import teneva
from harness.common import *
from harness.c04 import rF, quasi_diag_tt
from symtt.ref import ref_full, well_formed

THR = 1.E-100


def pow2(ctx, p):
    """2**p for an exponent returned by teneva (symbolic exponent atom or int)."""
    return 2. ** p


def _maxabs(ctx, A):
    xs = [abs(x) for x in np.asarray(A).reshape(-1)]
    return ctx.max_(xs)


def h_core_stab(ctx, shape, p0):
    G = ctx.array('g', tuple(shape))
    G0 = G.copy()
    Q, p = teneva.core_stab(G, p0)
    m = _maxabs(ctx, G0)
    if Q is G:
        # pass-through below the threshold
        ctx.claim('passthrough_only_below_threshold', ctx.le(m, THR))
        ctx.claim('passthrough_exponent', p == p0)
    else:
        ctx.claim('above_threshold', ctx.gt(m, THR))
        E = pow2(ctx, p - p0)
        ctx.claim('G_eq_2p_Q', ctx.all_eq(Q * E, G0))
        mq = _maxabs(ctx, Q)
        ctx.claim('mantissa_in_1_2', ctx.all_([ctx.ge(mq, 1), ctx.lt(mq, 2)]))
    ctx.claim('argument_untouched', ctx.all_eq(G, G0))
    ctx.claim('finite', finite(ctx, [Q]))


def h_mul_scalar(ctx, n, r1, r2, bounded=False):
    """Stabilised scalar product: (v, p) with v*2^p = <Y1, Y2>; the d = 2 run is
    the inductive step (the first cores produce an arbitrary normalised state)."""
    Y1 = ctx.tt('a', n, r1)
    Y2 = ctx.tt('b', n, r2)
    seen = []
    real_stab = teneva.core_stab

    def spy(G, p0=0, thr=1.E-100):
        seen.append(G.copy())
        return real_stab(G, p0, thr)
    teneva.core_stab = spy
    try:
        v, p = teneva.mul_scalar(Y1, Y2, use_stab=True)
    finally:
        teneva.core_stab = real_stab
    # no intermediate exceeds what one core can contribute to a normalised state
    # (mantissa < 2): 2 r1 r2 max_i(n_i max|G1_i| max|G2_i|) -- the representability
    # argument behind "far outside the double-precision range"
    # (decided for scalar cores only: max / abs atoms over sums are beyond the solver)
    if bounded:
        bound = ctx.max_([_maxabs(ctx, G1) * _maxabs(ctx, G2) * (2 * r1 * r2 * G1.shape[1]) for G1, G2 in zip(Y1, Y2)])
        ctx.claim('intermediates_bounded_per_core', ctx.all_([ctx.le(_maxabs(ctx, W), bound) for W in seen]))
    ctx.claim('rescaled_at_least_at_the_end', len(seen) >= 1)
    ref = (ref_full(Y1) * ref_full(Y2)).sum()
    ctx.claim('value', ctx.eq(v * pow2(ctx, p), ref))
    plain = teneva.mul_scalar(Y1, Y2)
    ctx.claim('stab_equals_plain', ctx.eq(v * pow2(ctx, p), plain))
    av = abs(v)
    ctx.claim('mantissa_moderate', ctx.any_([ctx.all_([ctx.ge(av, 1), ctx.lt(av, 2)]), ctx.le(av, THR)]))
    ctx.claim('finite', finite(ctx, [np.array([v])]))


def h_int_dtype_cores(ctx):
    """Hand-written tensors with cores of integer dtype: the stabilised scalar
    product, norm and accuracy give mantissa * 2^exponent equal to the true value
    (a symbolic real scale s on one float operand keeps the solver in the loop)."""
    A = [np.full((1, 2, 1), 3), np.array([[[2], [5]]]), np.array([[[7], [1]]])]
    B = [np.array([[[1], [4]]]), np.array([[[6], [2]]]), np.full((1, 2, 1), 5)]
    toF = lambda Y: ref_full([np.array([[[ctx.const(int(v)) for v in row] for row in blk] for blk in G],
                                       dtype=object if is_sym(ctx) else float) for G in Y])
    FA, FB = toF(A), toF(B)
    v, p = teneva.mul_scalar(A, B, use_stab=True)
    ctx.claim('int_scalar_product', ctx.eq(v * pow2(ctx, p), (FA * FB).sum()))
    z, ph = teneva.norm(A, use_stab=True)
    sq = z * pow2(ctx, ph)
    ctx.claim('int_norm', ctx.all_([ctx.eq(sq * sq, sumsq(FA)), ctx.ge(z, 0)]))
    s = ctx.real('s')
    ctx.assume(ctx.ge(s, 2))
    ctx.assume(ctx.le(s, 4))
    C = [G * 1. for G in A]
    C[0] = C[0] * s
    acc = teneva.accuracy(C, A)                  # reference tensor with integer cores: ||sA - A|| / ||A|| = s - 1
    ctx.claim('accuracy_against_int_reference', ctx.eq(acc, s - 1))
    # integer cores as the FIRST argument, the real factor in an inner core of the second: ||A - sA|| / ||sA||
    C2 = [G * 1. for G in A]
    C2[1] = C2[1] * s
    ctx.claim('accuracy_of_int_tensor_against_float_reference', ctx.eq(teneva.accuracy(A, C2) * s, s - 1))
    ctx.claim('cores_keep_their_dtype', all(G.dtype.kind == 'i' for G in A + B))


def h_norm(ctx, n, r):
    Y = ctx.tt('y', n, r)
    z, ph = teneva.norm(Y, use_stab=True)
    ref2 = sumsq(ref_full(Y))
    s = z * pow2(ctx, ph)
    ctx.claim('norm_squared', ctx.eq(s * s, ref2))
    ctx.claim('nonnegative', ctx.ge(z, 0))
    ctx.claim('mantissa_moderate', ctx.lt(z, 2))
    zp = teneva.norm(Y)
    ctx.claim('stab_equals_plain', ctx.eq(s, zp))


def h_accuracy(ctx, n, r, signs, tiny_last=False):
    """accuracy(Y1, Y2): true relative distance or the documented saturation values.
    tiny_last: the last cores have entries below the rescaling threshold of
    core_stab (2^-400 .. 2^-340), the others are moderate."""
    Y1 = ctx.tt('a', n, r)
    Y2 = ctx.tt('b', n, r)
    B = 2 ** 100
    if tiny_last:
        for G in Y1[:-1] + Y2[:-1]:
            for x in G.reshape(-1):
                ctx.assume(ctx.le(x, 2 ** 10))
                ctx.assume(ctx.ge(x, Fraction(1, 2 ** 10)))
        for G in (Y1[-1], Y2[-1]):
            for x in G.reshape(-1):
                ctx.assume(ctx.le(x, Fraction(1, 2 ** 340)))
                ctx.assume(ctx.ge(x, Fraction(1, 2 ** 400)))
    for G in ([] if tiny_last else Y1 + Y2):
        for x in G.reshape(-1):
            # magnitudes in [2^-100, 2^100]: no float64 under/overflow in the replay
            ctx.assume(ctx.le(x, B))
            if signs:
                ctx.assume(ctx.any_([ctx.ge(x, Fraction(1, B)), ctx.le(x, -Fraction(1, B))]))
                ctx.assume(ctx.ge(x, -B))
            else:
                ctx.assume(ctx.ge(x, Fraction(1, B)))
    acc = teneva.accuracy(Y1, Y2)
    F1, F2 = ref_full(Y1), ref_full(Y2)
    d2 = sumsq(F1 - F2)
    n2 = sumsq(F2)
    big = 2 ** 996
    if is_sym(ctx):
        c = acc.const_value() if hasattr(acc, 'const_value') else acc
    else:
        c = acc if acc in (1.E+299, 0., -1) else None
    if c is not None and c == -1:
        ctx.claim('sentinel_only_if_reference_zero', ctx.is_zero(n2))
    elif c is not None and c == 0:
        # (for an exactly zero reference the value is undefined; only finiteness is claimed)
        ctx.claim('zero_only_if_negligible', ctx.any_([ctx.is_zero(n2), ctx.le(d2, n2 / big)]))
    elif c is not None and c > 1e298:
        ctx.claim('saturation_only_if_huge', ctx.ge(d2, n2 * big))
    else:
        ctx.claim('true_relative_distance', ctx.eq(acc * acc * n2, d2))
        ctx.claim('nonnegative', ctx.ge(acc, 0))


def h_accuracy_repeat(ctx, n):
    """Two consecutive calls with the same reference list whose first core is
    rescaled in place by 4 in between: both values are the true relative distances
    (moderate magnitudes: no saturation)."""
    Y1 = ctx.tt('a', n, 1)
    Y2 = ctx.tt('b', n, 1)
    for G in Y1 + Y2:
        for x in G.reshape(-1):
            ctx.assume(ctx.le(x, 8))
            ctx.assume(ctx.ge(x, Fraction(1, 8)))
    for rep in range(2):
        acc = teneva.accuracy(Y1, Y2)
        F1, F2 = ref_full(Y1), ref_full(Y2)
        d2, n2 = sumsq(F1 - F2), sumsq(F2)
        big = 2 ** 996
        if is_sym(ctx):
            c = acc.const_value() if hasattr(acc, 'const_value') else acc
        else:
            c = acc if acc in (1.E+299, 0., -1) else None
        if c is not None and c == 0:
            # documented saturation: the distance is negligible (relative 2^-498 and less)
            ctx.claim(f'zero_only_if_negligible_call{rep}', ctx.le(d2, n2 / big))
        elif c is not None and (c == -1 or c > 1e298):
            # (not reachable for moderate tensors; the scale-variable abstraction cannot always
            # exclude it, and the other saturation values are the subject of h_accuracy)
            pass
        else:
            ctx.claim(f'true_relative_distance_call{rep}', ctx.all_([ctx.eq(acc * acc * n2, d2), ctx.ge(acc, 0)]))
        Y2[0][...] = Y2[0] * 4                  # the caller edits its reference tensor in place


def h_accuracy_dense(ctx, shape):
    A = ctx.array('a', tuple(shape))
    B = ctx.array('b', tuple(shape))
    ctx.assume(ctx.gt(sumsq(B), 0))
    acc = teneva.accuracy(A, B)
    ctx.claim('dense_relative_distance', ctx.eq(acc * acc * sumsq(B), sumsq(A - B)))


def h_orth_stab_quasi(ctx, d, n, k, neg=False, flag='True'):
    """neg: the pivot core has non-positive entries only (its largest entry is a zero)."""
    Y, W = quasi_diag_tt(ctx, d, n)
    if neg:
        Y[k] = Y[k] * (-1)
    if flag != 'True':
        Y[0] = Y[0] * 2 ** 20                # (far from the mantissa range for every moderate choice of the weights)
    Y0 = [G.copy() for G in Y]
    # (flag: the switch as the literal True or as another truthy value, e.g. the result of a NumPy comparison)
    Z, p = teneva.orthogonalize(Y, k, use_stab={'True': True, 'np.bool_': np.True_, 'int': 1,
                                                 'cmp': np.float64(2.) > 1.}[flag])
    ctx.claim('well_formed', well_formed(Z, [n] * d))
    ctx.claim('Y_eq_2p_Z', ctx.all_eq(ref_full(Z) * pow2(ctx, p), ref_full(Y0)))
    for j in range(d):
        if j != k:
            ctx.claim('orthonormal_entries_le_1', ctx.all_([ctx.le(abs(x), 1) for x in Z[j].reshape(-1)]))
    mq = _maxabs(ctx, Z[k])
    if d > 1:
        ctx.claim('pivot_mantissa_moderate', ctx.any_([ctx.all_([ctx.ge(mq, 1), ctx.lt(mq, 2)]), ctx.le(mq, THR)]))
    Zp = teneva.orthogonalize(Y, k)
    ctx.claim('stab_equals_plain', ctx.all_eq(ref_full(Z) * pow2(ctx, p), ref_full(Zp)))


def h_orth_stab_d2(ctx, n1, n2, r):
    """Generic 2-D tensor, pivot 1, stabilised."""
    kk = min(n1, r)
    Q = householder_frame(ctx, 'q', n1, kk)
    R = mat(ctx, 'r', kk, r)
    M = Q @ R
    Y = [rF(M, (1, n1, r)), ctx.array('y1', (r, n2, 1))]
    expect(ctx, 'qr', M, (Q, R))
    Y0 = [G.copy() for G in Y]
    Z, p = teneva.orthogonalize(Y, 1, use_stab=True)
    ctx.claim('Y_eq_2p_Z', ctx.all_eq(ref_full(Z) * pow2(ctx, p), ref_full(Y0)))
    U = rF(Z[0], (-1, Z[0].shape[2]))
    ctx.claim('left_orthonormal', ctx.all_eq(U.T @ U, eye(ctx, U.shape[1])))
    mq = _maxabs(ctx, Z[1])
    ctx.claim('pivot_mantissa_moderate', ctx.any_([ctx.all_([ctx.ge(mq, 1), ctx.lt(mq, 2)]), ctx.le(mq, THR)]))


def h_rescale(ctx, shape, k):
    """Multiplying a core by 2^k shifts the exponent by k and leaves the
    mantissa (uses discreteness of powers of two for the two scales involved)."""
    G = ctx.array('g', tuple(shape))
    m = _maxabs(ctx, G)
    f = 2. ** k
    ctx.assume(ctx.gt(m, THR))
    ctx.assume(ctx.gt(m * f, THR))
    Q1, p1 = teneva.core_stab(G)
    Q2, p2 = teneva.core_stab(G * f)
    if is_sym(ctx):
        A = pow2(ctx, p1) * f
        B = pow2(ctx, p2)
        ctx.assume(ctx.any_([ctx.eq(B, A), ctx.ge(B, A * 2), ctx.le(B * 2, A)]),
                   'two powers of two are equal or differ by a factor >= 2')
    ctx.claim('exponent_shifted_by_k', ctx.eq(pow2(ctx, p2), pow2(ctx, p1) * f) if is_sym(ctx) else p2 == p1 + k)
    ctx.claim('mantissa_unchanged', ctx.all_eq(Q1, Q2))


def h_concrete_small_norm(ctx):
    """Stabilised rounding of tensors with norm far below / above one equals the
    plain rounding where both are representable (real code, fixed inputs: the
    integer exponent bookkeeping p/d, p % d is not encodable with scale variables)."""
    ok = True
    for d, sc in [(3, 2. ** -3), (4, 2. ** -7), (5, 2. ** -11), (4, 2. ** 9), (7, 2. ** -5)]:
        Y = teneva.rand([3] * d, 2, seed=d)
        Y = [G * sc for G in Y]
        Za = teneva.truncate(Y, 1e-10, use_stab=True)
        Zb = teneva.truncate(Y, 1e-10)
        Fa, Fb, F = teneva.full(Za), teneva.full(Zb), teneva.full(Y)
        ok = ok and np.linalg.norm(Fa - F) <= 1e-8 * np.linalg.norm(F) and np.linalg.norm(Fa - Fb) <= 1e-8 * np.linalg.norm(F)
        ok = ok and all(np.all(np.isfinite(G)) for G in Za)
    # a component only slightly above the accuracy, both decomposition modes, several scales:
    # the stabilised rounding keeps it (same ranks and error budget as the plain one)
    rng = np.random.default_rng(4)
    e = 1e-3
    for n, sc in [(16, 1.), (32, 2. ** 40), (16, 2. ** -30), (64, 1.)]:
        A = [rng.normal(size=(1, n, 1)) for _ in range(3)]
        B = [rng.normal(size=(1, n, 1)) for _ in range(3)]
        na, nb = np.linalg.norm(teneva.full(A)), np.linalg.norm(teneva.full(B))
        B[0] = B[0] * (3.5 * e * na / nb)
        Y = teneva.add(A, B)
        Y = [G * sc for G in Y]
        F = teneva.full(Y)
        for is_eigh in (True, False):
            Zp = teneva.truncate(Y, e, is_eigh=is_eigh)
            Zs = teneva.truncate(Y, e, is_eigh=is_eigh, use_stab=True)
            ok = ok and teneva.ranks(Zs).tolist() == teneva.ranks(Zp).tolist()
            ok = ok and np.linalg.norm(teneva.full(Zs) - F) <= e * np.linalg.norm(F) * (1 + 1e-9)
    # coarse accuracies on generic tensors: the budget is split over the bonds in both modes
    for d, e2 in [(3, 0.3), (4, 0.2), (4, 0.45), (5, 0.1), (3, 0.05)]:
        Y = teneva.rand([4] * d, 3, seed=20 + d)
        F = teneva.full(Y)
        for is_eigh in (True, False):
            Zp = teneva.truncate(Y, e2, is_eigh=is_eigh)
            Zs = teneva.truncate(Y, e2, is_eigh=is_eigh, use_stab=True)
            ok = ok and teneva.ranks(Zs).tolist() == teneva.ranks(Zp).tolist()
            ok = ok and np.linalg.norm(teneva.full(Zs) - F) <= e2 * np.linalg.norm(F) * (1 + 1e-9)
    ctx.claim('stabilised_rounding_equals_plain', bool(ok))


def h_concrete_accuracy_scales(ctx):
    """accuracy(Y2 + s E, Y2) for a geometric sequence of perturbation sizes s
    (real code): the exponent difference of the two stabilised norms takes
    positive and negative, integer and half-integer values; the result is the
    dense relative distance every time."""
    rng = np.random.default_rng(5)
    ok = True
    for n, r in (([3, 4, 3], 2), ([2, 2, 2, 2], [1, 2, 3, 2, 1])):
        Y2 = teneva.rand(n, r, seed=3)
        E = teneva.rand(n, 1, seed=4)
        F2, FE = teneva.full(Y2), teneva.full(E)
        for k in range(-14, 24):
            s = 0.7 ** k
            Y1 = teneva.add(Y2, teneva.mul(E, s))
            want = np.linalg.norm(s * FE) / np.linalg.norm(F2)
            got = teneva.accuracy(Y1, Y2)
            ok = ok and abs(got - want) <= 1e-6 * want
            got_r = teneva.accuracy(Y2, Y1)
            want_r = np.linalg.norm(s * FE) / np.linalg.norm(F2 + s * FE)
            ok = ok and abs(got_r - want_r) <= 1e-6 * want_r
    ctx.claim('accuracy_is_relative_distance_at_every_scale', bool(ok))


def h_concrete_saturation_boundary(ctx):
    """accuracy() next to its saturation bounds (real code, exact power-of-two
    inputs; the distances are far outside what a float replay of the symbolic
    instances can reach): Y1 = m 2^b Y2 for rank-1 Y2, so that the true relative
    distance is m 2^b - 1 (resp. 1 - m 2^-b for the lower bound).  Representable
    distances up to 2^500.4 are returned as they are; the saturation values
    appear only beyond 2^502 (resp. below 2^-502)."""
    def build(d, base, boost, m):
        Y2 = [np.ones((1, 2, 1)) * base for _ in range(d)]
        Y1 = [G.copy() for G in Y2]
        q, k = abs(boost), 1
        while q > 0:
            s_ = min(q, 50)
            Y1[k] = Y1[k] * 2. ** (s_ if boost > 0 else -s_)
            q -= s_
            k += 1
        Y1[0] = Y1[0] * m
        return Y1, Y2
    ok_true, ok_sat = True, True
    for d, base in [(16, 1.), (3000, 2. ** 7), (3000, 2. ** -9), (40, 2. ** 200)]:
        for boost, m in [(400, 1.25), (499, 1.75), (500, 1.), (500, 1.25), (500, 1.3), (498, 1.9)]:
            Y1, Y2 = build(d, base, boost, m)
            got = teneva.accuracy(Y1, Y2)
            ok_true = ok_true and bool(np.isfinite(got)) and abs(got / (m * 2. ** boost - 1.) - 1.) < 1e-9
        for boost, m in [(503, 1.), (700, 1.25)]:
            Y1, Y2 = build(d, base, boost, m)
            ok_sat = ok_sat and teneva.accuracy(Y1, Y2) == 1.E+299
        # the distance of Y2 from the much larger Y1, relative to Y1: 1 - 2^-b/m, no saturation involved
        for boost, m in [(499, 1.75), (500, 1.), (500, 1.25)]:
            Y1, Y2 = build(d, base, boost, m)
            ok_true = ok_true and abs(teneva.accuracy(Y2, Y1) - 1.) < 1e-9
    ctx.claim('representable_distance_returned_up_to_the_documented_bound', bool(ok_true))
    ctx.claim('saturation_value_beyond_the_bound', bool(ok_sat))


def instances(tier):
    out = []
    quick = tier == 'quick'
    for shape in ([(1, 2, 1), (2, 1, 2)] if quick else [(1, 2, 1), (2, 1, 2), (2, 2, 1), (1, 3, 2)]):
        for p0 in (0, 7):
            out.append({'func': 'h_core_stab', 'params': {'shape': list(shape), 'p0': p0}})
    for n, r1, r2 in ([([2, 2], 1, 1), ([2, 1], 2, 1)] if quick else [([2, 2], 1, 1), ([2, 1], 2, 1), ([2, 2], 2, 1), ([2, 1, 2], 1, 1)]):
        out.append({'func': 'h_mul_scalar', 'params': {'n': n, 'r1': r1, 'r2': r2}})
    for n in ([1, 1], [1, 1, 1]):
        out.append({'func': 'h_mul_scalar', 'params': {'n': n, 'r1': 1, 'r2': 1, 'bounded': True}})
    for n, r in ([([2, 1], 1), ([1, 2], 2)] if quick else [([2, 1], 1), ([1, 2], 2), ([2, 2], 1), ([1, 1, 2], 1)]):
        out.append({'func': 'h_norm', 'params': {'n': n, 'r': r}})
    for n, r, sg in ([([1, 1, 1], 1, False)] if quick else [([1, 1, 1], 1, False), ([1, 1], 1, True), ([2, 1], 1, False)]):
        out.append({'func': 'h_accuracy', 'params': {'n': n, 'r': r, 'signs': sg}})
    out.append({'func': 'h_accuracy', 'params': {'n': [1, 1], 'r': 1, 'signs': False, 'tiny_last': True}})
    out.append({'func': 'h_accuracy_repeat', 'params': {'n': [1, 1]}})
    out.append({'func': 'h_int_dtype_cores', 'params': {}})
    out.append({'func': 'h_accuracy_dense', 'params': {'shape': [2, 2]}})
    for d, n in ([(3, 2)] if quick else [(3, 2), (4, 2)]):
        for k in range(d):
            out.append({'func': 'h_orth_stab_quasi', 'params': {'d': d, 'n': n, 'k': k}, 'opts': {'symbolic_signs': False}})
            if n == 2 and k in (0, d - 1):
                out.append({'func': 'h_orth_stab_quasi', 'params': {'d': d, 'n': n, 'k': k, 'neg': True},
                            'opts': {'symbolic_signs': False}})
                out.append({'func': 'h_orth_stab_quasi', 'params': {'d': d, 'n': n, 'k': k, 'flag': 'cmp' if k else 'int'},
                            'opts': {'symbolic_signs': False}})
    out.append({'func': 'h_orth_stab_d2', 'params': {'n1': 2, 'n2': 2, 'r': 2}})
    out.append({'func': 'h_concrete_small_norm', 'params': {}, 'opts': {'concrete_only': True}})
    out.append({'func': 'h_concrete_saturation_boundary', 'params': {}, 'opts': {'concrete_only': True}})
    out.append({'func': 'h_concrete_accuracy_scales', 'params': {}, 'opts': {'concrete_only': True}})
    for k in ([1, -3] if quick else [1, -1, 5, -7]):
        out.append({'func': 'h_rescale', 'params': {'shape': [1, 2, 1], 'k': k}})
    return out


BOUNDS = {
    'quick': 'core_stab on cores with 2-4 entries (all sign patterns, both sides of the threshold); mul_scalar / norm on d=2 with '
             '<= 4 entries per tensor pair (the d=2 run is the inductive step from an arbitrary normalised state, exponents are '
             'unbounded symbolic integers); accuracy on 1x1 rank-1 pairs incl. all saturation branches; stabilised orthogonalize on '
             'super-diagonal d=3 n=2 (all pivots) and generic 2x2; rescaling by 2^k, k in {1,-3}; concrete (real code): accuracy(Y+sE, Y) and reverse for s=0.7^k, k=-14..23',
    'thorough': 'adds larger cores, d=3 scalar products, accuracy on (2,1), super-diagonal d=4, k in {1,-1,5,-7}',
}
OUTSIDE = ('actual float64 overflow/underflow (exact reals); dimensions beyond the inductive step are covered only through the '
           'step invariant; that the scale is an exact power of two (superset E <= v < 2E, except in the rescaling harness)')
ASSUMPTIONS = ['floor(log2(v)) modelled by a positive scale E with E <= v < 2E', 'exact real arithmetic',
               'rescaling harness: two powers of two are equal or differ by a factor >= 2 (instantiated for the pair compared)']
