"""C03 - TT-SVD meets the sqrt(d-1)*e error bound with capped, quasi-optimal ranks."""
import itertools
import numpy as np
import teneva
from harness.common import *
from symtt.ref import ref_full, well_formed


def spectrum(ctx, k, positive=False):
    """s_0 >= s_1 >= ... >= s_{k-1} >= 0 (or > 0)."""
    s = vec(ctx, 's', k)
    for i in range(k - 1):
        ctx.assume(ctx.ge(s[i], s[i + 1]))
    ctx.assume(ctx.gt(s[k - 1], 0) if positive else ctx.ge(s[k - 1], 0))
    return s


def diag(ctx, s):
    k = len(s)
    D = zeros(ctx, (k, k))
    for i in range(k):
        D[i, i] = s[i]
    return D


def rank_spec(ctx, q, tails, e2, r):
    """q == max(1, min(r, q*)), q* = smallest j with tails[j] <= e2 (tails[k] = 0)."""
    k = len(tails) - 1
    alts = []
    for j in range(k + 1):
        is_qstar = ctx.all_([ctx.le(tails[j], e2)] + ([ctx.gt(tails[j - 1], e2)] if j > 0 else []))
        if r is None:
            ok = (q == max(1, j))
        elif q == 1:
            ok = ctx.any_([ctx.le(r, 1), j <= 1])
        else:
            ok = ctx.any_([ctx.all_([ctx.eq(r, q), j >= q]), ctx.all_([j == q, ctx.ge(r, q)])])
        alts.append(ctx.all_([is_qstar, ok]))
    return ctx.any_(alts)


def h_skeleton(ctx, m, n, give_to, rel, with_cap, plain=False, tie=None):
    """matrix_skeleton on A := U diag(s) V (SVD contract: s descending >= 0).
    plain: U, V identity blocks (three and more singular values at low cost: the
    rank selection only reads the spectrum).  tie = j: the accuracy is not a free
    symbol but exactly the (normalised) singular value number j with all later
    ones zero, i.e. the tail energy equals e (a boundary the solver finds on the
    free instances too, but there its counterexamples need a tie between
    independently rounded floats; here both sides are the same float)."""
    if plain:
        k = min(m, n)
        U, V = eye(ctx, m)[:, :k].copy(), eye(ctx, n)[:k, :].copy()
    else:
        U, V, k = _orth_svd(ctx, m, n)
    s = spectrum(ctx, k, positive=rel)
    A = U @ diag(ctx, s) @ V
    if tie is not None:
        s = s.copy()
        s[tie + 1:] = ctx.const(0)
        ctx.assume(ctx.gt(s[tie], 0))
        A = U @ diag(ctx, s) @ V
    expect(ctx, 'svd', A, (U, s, V))
    if tie is None:
        e = ctx.real('e')
        ctx.assume(ctx.gt(e, 0))
    else:
        e = s[tie] / s[0] if rel else s[tie]
    r = ctx.integer('r') if with_cap else None
    if with_cap:
        ctx.assume(ctx.ge(r, 1))
    F, G = teneva.matrix_skeleton(A, e, r if with_cap else 1.E+12, rel=rel, give_to=give_to)
    q = F.shape[1]
    ctx.claim('shapes', F.shape == (m, q) and G.shape == (q, n) and 1 <= q <= k)
    ss = [x / s[0] for x in s] if rel else list(s)
    tails = [sum((x * x for x in ss[j:]), ctx.const(0)) for j in range(k + 1)]
    ctx.claim('rank_is_smallest_within_cap', rank_spec(ctx, q, tails, e * e, r))
    if tie is not None:
        if not is_sym(ctx):
            # (the boundary is exact in floats as well provided LAPACK returns the diagonal unchanged)
            ctx.assume(bool(np.array_equal(np.linalg.svd(np.asarray(A, dtype=float), compute_uv=False),
                                           np.asarray(s, dtype=float))))
        ctx.claim('rank_at_exact_tie', q == max(1, tie))
    if with_cap:
        ctx.claim('cap', ctx.any_([q == 1, ctx.le(q, r)]))
    best = U[:, :q] @ diag(ctx, s[:q]) @ V[:q, :]
    ctx.claim('product_is_truncated_svd', ctx.all_eq(F @ G, best))
    if give_to == 'l':
        ctx.claim('right_factor_orthonormal_rows', ctx.all_eq(G @ G.T, eye(ctx, q)))
    if give_to == 'r':
        ctx.claim('left_factor_orthonormal_columns', ctx.all_eq(F.T @ F, eye(ctx, q)))
    ctx.claim('finite', finite(ctx, [F, G]))
    ctx.canary('canary', ctx.all_eq(F @ G, A * 2))


def h_skeleton_antidiag(ctx, give_to):
    """matrix_skeleton on the non-symmetric anti-diagonal matrix [[0, b], [c, 0]]
    with b and c close (relative difference between 5e-6 and 1e-5) or far apart:
    an almost symmetric square matrix is still factorised as it is."""
    b = ctx.real('b')
    c = ctx.real('c')
    ctx.assume(ctx.gt(c, 0))
    ctx.assume(ctx.gt(b, c))
    ctx.assume(ctx.ge(b - c, c * ctx.const(5) / 10 ** 6), 'asymmetry visible to the float replay')
    A = zeros(ctx, (2, 2))
    A[0, 1] = b
    A[1, 0] = c
    e = ctx.real('e')
    ctx.assume(ctx.gt(e, 0))
    F, G = teneva.matrix_skeleton(A, e, give_to=give_to)
    q = F.shape[1]
    ctx.claim('shapes', F.shape == (2, q) and G.shape == (q, 2) and 1 <= q <= 2)
    # singular values b > c: rank 1 iff c <= e; the best rank-1 approximation keeps b
    ctx.claim('rank_is_smallest', ctx.any_([ctx.all_([q == 1, ctx.le(c, e)]), ctx.all_([q == 2, ctx.gt(c, e)])]))
    best = A.copy()
    if q == 1:
        best[1, 0] = ctx.const(0)
    ctx.claim('product_is_truncated_svd', ctx.all_eq(F @ G, best))
    ctx.claim('finite', finite(ctx, [F, G]))


def h_skeleton_hermitian(ctx, give_to, anti):
    """matrix_skeleton(hermitian=True) on a symmetric indefinite 2 x 2 matrix
    (diag(a, -b), or [[0, a], [a, 0]] with eigenvalues +-a): the product is
    still the best rank-q approximation of the matrix itself, for all three
    ways of distributing the singular values."""
    a = ctx.real('a')
    ctx.assume(ctx.gt(a, 0))
    A = zeros(ctx, (2, 2))
    if anti:
        A[0, 1] = a
        A[1, 0] = a
        sv = [a, a]
    else:
        b = ctx.real('b')
        ctx.assume(ctx.gt(b, 0))
        ctx.assume(ctx.gt(abs(a - b), (a + b) / 1000), 'no near-tie of the two singular values in the float replay')
        A[0, 0] = a
        A[1, 1] = -b
        sv = [a, b]
    e = ctx.real('e')
    ctx.assume(ctx.gt(e, 0))
    F, G = teneva.matrix_skeleton(A, e, hermitian=True, give_to=give_to)
    q = F.shape[1]
    ctx.claim('shapes', F.shape == (2, q) and G.shape == (q, 2) and 1 <= q <= 2)
    if q == 2:
        ctx.claim('product_is_truncated_svd', ctx.all_eq(F @ G, A))
    elif not anti:
        best = A.copy()
        if bool(ctx.gt(a, b)):
            best[1, 1] = ctx.const(0)
        else:
            best[0, 0] = ctx.const(0)
        ctx.claim('product_is_truncated_svd', ctx.all_eq(F @ G, best))
    else:
        # equal singular values: any best rank-1 approximation has error exactly a
        ctx.claim('product_is_truncated_svd', ctx.eq(sumsq(F @ G - A), a * a))
    small = sv[1] if anti or bool(ctx.gt(sv[0], sv[1])) else sv[0]
    ctx.claim('rank_is_smallest', ctx.any_([ctx.all_([q == 1, ctx.le(small, e)]), ctx.all_([q == 2, ctx.gt(small, e)])]))
    ctx.claim('finite', finite(ctx, [F, G]))


def _orth_svd(ctx, m, n):
    """A := U diag(s) V with orthonormal U (m x k) and V (k x n), k = min(m, n)."""
    k = min(m, n)
    U = householder_frame(ctx, 'p', m, k)
    V = householder_frame(ctx, 'q', n, k).T
    return U, V, k


def h_matrix_svd(ctx, m, n, with_cap):
    U, V, k = _orth_svd(ctx, m, n)
    s = spectrum(ctx, k)
    A = U @ diag(ctx, s) @ V
    # eigh contract on the Gram matrix: eigenvalues s^2 ascending, vectors U (or V^T)
    C = A @ A.T if m <= n else A.T @ A
    W = U if m <= n else V.T
    w_asc = np.array([s[i] * s[i] for i in range(k - 1, -1, -1)], dtype=C.dtype)
    expect(ctx, 'eigh', C, (w_asc, W[:, ::-1].copy()))
    if m == n:
        # the other Gram matrix too (square case): a change that factorises A^T A must
        # run into wrong factors, not into an unmodelled call
        expect(ctx, 'eigh', A.T @ A, (w_asc, V.T[:, ::-1].copy()))
    for i in range(k):
        ctx.register_root(s[i] * s[i], 2, s[i])
    e = ctx.real('e')
    ctx.assume(ctx.gt(e, 0))
    r = ctx.integer('r') if with_cap else None
    if with_cap:
        ctx.assume(ctx.ge(r, 1))
    F, G = teneva.matrix_svd(A, e, r if with_cap else 1.E+12)
    q = F.shape[1]
    ctx.claim('shapes', F.shape == (m, q) and G.shape == (q, n) and 1 <= q <= k)
    tails = [sum((x * x for x in s[j:]), ctx.const(0)) for j in range(k + 1)]
    ctx.claim('rank_is_smallest_within_cap', rank_spec(ctx, q, tails, e * e, r))
    ctx.claim('finite', finite(ctx, [F, G]))
    err2 = sumsq(A - F @ G)
    ctx.claim('error_is_tail_energy', ctx.eq(err2, tails[q]))


def h_svd_2d(ctx, n1, n2, with_cap):
    """teneva.svd of a generic matrix: error^2 = discarded energy <= e^2."""
    U, V, k = _orth_svd(ctx, n1, n2)
    s = spectrum(ctx, k, positive=True)
    Y = U @ diag(ctx, s) @ V
    expect(ctx, 'svd', Y, (U, s, V))
    e = ctx.real('e')
    ctx.assume(ctx.gt(e, 0))
    r = ctx.integer('r') if with_cap else None
    if with_cap:
        ctx.assume(ctx.ge(r, 1))
    Z = teneva.svd(Y, e, r if with_cap else 1.E+12)
    ctx.claim('well_formed', well_formed(Z, [n1, n2]))
    q = Z[0].shape[2]
    tails = [sum((x * x for x in s[j:]), ctx.const(0)) for j in range(k + 1)]
    ctx.claim('rank_is_smallest_within_cap', rank_spec(ctx, q, tails, e * e, r))
    err2 = sumsq(ref_full(Z) - Y)
    ctx.claim('error_is_tail_energy', ctx.eq(err2, tails[q]))
    cap_binds = ctx.eq(r, q) if with_cap else False
    ctx.claim('error_bound_or_cap', ctx.any_([ctx.le(err2, e * e), cap_binds]))
    ctx.claim('finite', finite(ctx, Z))


def superdiag(ctx, d, n):
    """Y[i,...,i] = a_i > 0, zero elsewhere (all unfoldings are generalised
    permutation matrices, so every SVD has a closed form)."""
    a = vec(ctx, 'a', n)
    for i in range(n):
        ctx.assume(ctx.gt(a[i], 0))
    Y = zeros(ctx, (n,) * d)
    for i in range(n):
        Y[(i,) * d] = a[i]
    return Y, a


def h_svd_superdiag(ctx, d, n, with_cap, pad=None, int_weights=None):
    """pad: extra zero slices per mode (non-uniform shapes, very tall / very wide
    unfoldings; the spectrum of every unfolding stays {a_i})."""
    Y, a = superdiag(ctx, d, n)
    if int_weights is not None:
        # a dense array of integer dtype (counts, labels): the cores are real-valued all the same
        a = [ctx.const(int(w)) for w in int_weights]
        Y = np.zeros((n,) * d, dtype=int)
        for i in range(n):
            Y[(i,) * d] = int(int_weights[i])
    shape = [n] * d
    if pad:
        shape = [n + p for p in pad]
        Yp = zeros(ctx, tuple(shape))
        Yp[tuple(slice(0, n) for _ in range(d))] = Y
        Y = Yp
    e = ctx.real('e')
    ctx.assume(ctx.gt(e, 0))
    r = ctx.integer('r') if with_cap else None
    if with_cap:
        ctx.assume(ctx.ge(r, 1))
    Z = teneva.svd(Y, e, r if with_cap else 1.E+12)
    ctx.claim('well_formed', well_formed(Z, shape))
    ctx.claim('finite', finite(ctx, Z))
    ranks = [G.shape[2] for G in Z[:-1]]
    err2 = sumsq(ref_full(Z) - Y)
    # spectrum of every unfolding of Y is {a_i}; sorted tails by forking order
    srt = sorted(range(n), key=lambda i: _Key(ctx, a[i]), reverse=True)
    sa = [a[i] for i in srt]
    tails = [sum((x * x for x in sa[j:]), ctx.const(0)) for j in range(n + 1)]
    e2 = e * e
    for b, q in enumerate(ranks):
        if with_cap:
            ctx.claim('rank_le_cap', ctx.any_([q == 1, ctx.le(q, r)]))
        # q <= smallest rank whose tail energy in this unfolding is <= e
        ok = ctx.any_([q == 1] + [ctx.all_([ctx.le(tails[j], e2), q <= max(1, j)]) for j in range(n + 1)])
        ctx.claim('rank_quasi_optimal', ok)
    cap_binds = ctx.any_([ctx.eq(r, q) for q in ranks]) if with_cap else False
    ctx.claim('error_bound_or_cap', ctx.any_([ctx.le(err2, e2 * (d - 1)), cap_binds]))
    # exact low rank reproduced: if e below the smallest weight and no cap, exact
    if not with_cap:
        ctx.claim('exact_when_e_small', ctx.any_([ctx.ge(e2, sa[-1] * sa[-1]), ctx.eq(err2, 0)]))


def h_svd_int_dense(ctx, transpose):
    """TT-SVD of a dense array of integer dtype whose factors are not integer
    valued (columns with disjoint supports: normalised columns 3/5, 4/5, ...):
    the cores are real valued and the error bound holds."""
    Y = np.array([[3, 0], [4, 0], [0, 1], [0, 2]])
    if transpose:
        Y = Y.T.copy()
    e = ctx.real('e')
    ctx.assume(ctx.gt(e, 0))
    Z = teneva.svd(Y, e)
    ctx.claim('well_formed', well_formed(Z, list(Y.shape)))
    Yc = np.array([[ctx.const(int(v)) for v in row] for row in Y], dtype=object if is_sym(ctx) else float)
    err2 = sumsq(ref_full(Z) - Yc)
    ctx.claim('error_bound', ctx.le(err2, e * e))
    ctx.claim('exact_when_e_small', ctx.any_([ctx.ge(e * e, 5), ctx.eq(err2, 0)]))
    ctx.claim('input_untouched', bool(np.array_equal(Y, np.array([[3, 0], [4, 0], [0, 1], [0, 2]]).T if transpose
                                                     else np.array([[3, 0], [4, 0], [0, 1], [0, 2]]))))


def _unfold_spectrum2(ctx, M):
    """Squared singular values of a matrix whose rows (or columns) have pairwise
    disjoint supports: the squared row (column) norms."""
    M = np.asarray(M)
    nz = lambda x: not (hasattr(x, 'const_value') and x.const_value() == 0) if is_sym(ctx) else x != 0
    rows_disjoint = all(sum(1 for i in range(M.shape[0]) if nz(M[i, j])) <= 1 for j in range(M.shape[1]))
    if rows_disjoint:
        return [sumsq(M[i, :]) for i in range(M.shape[0])]
    cols_disjoint = all(sum(1 for j in range(M.shape[1]) if nz(M[i, j])) <= 1 for i in range(M.shape[0]))
    assert cols_disjoint
    return [sumsq(M[:, j]) for j in range(M.shape[1])]


def h_svd_perm4(ctx, with_cap, ordered=True):
    """2x2x2x2 array Y[i1,i2,i3,i4] = a[i1,i2] if (i3,i4) = (i2,i1) else 0: the
    middle unfolding has rank 4 > n_1 = 2 (ranks 2,4,2), all unfoldings have
    rows or columns with disjoint supports (closed-form SVDs)."""
    a = mat(ctx, 'a', 2, 2)
    for x in a.reshape(-1):
        ctx.assume(ctx.gt(x, 0))
    if ordered:
        # one ordering of the four weights (quick tier); magnitudes stay symbolic
        fl = [a[0, 0], a[1, 1], a[0, 1], a[1, 0]]
        for x, y in zip(fl, fl[1:]):
            ctx.assume(ctx.gt(x, y))
    Y = zeros(ctx, (2, 2, 2, 2))
    for i1 in range(2):
        for i2 in range(2):
            Y[i1, i2, i2, i1] = a[i1, i2]
    e = ctx.real('e')
    ctx.assume(ctx.gt(e, 0))
    r = ctx.integer('r') if with_cap else None
    if with_cap:
        ctx.assume(ctx.ge(r, 1))
    Z = teneva.svd(Y, e, r if with_cap else 1.E+12)
    ctx.claim('well_formed', well_formed(Z, [2] * 4))
    ctx.claim('finite', finite(ctx, Z))
    ranks = [G.shape[2] for G in Z[:-1]]
    err2 = sumsq(ref_full(Z) - Y)
    e2 = e * e
    cap_binds = ctx.any_([ctx.eq(r, q) for q in ranks]) if with_cap else False
    ctx.claim('error_bound_or_cap', ctx.any_([ctx.le(err2, e2 * 3), cap_binds]))
    amin2 = ctx.min_([x * x for x in a.reshape(-1)])
    if not with_cap:
        ctx.claim('exact_when_e_small', ctx.any_([ctx.ge(e2, amin2), ctx.all_([ctx.eq(err2, 0), ranks == [2, 4, 2]])]))
    for b, q in enumerate(ranks):
        M = Y.reshape(2 ** (b + 1), -1)
        sq = _unfold_spectrum2(ctx, M)
        srt = sorted(range(len(sq)), key=lambda i: _Key(ctx, sq[i]), reverse=True)
        ss = [sq[i] for i in srt]
        tails = [sum(ss[j:], ctx.const(0)) for j in range(len(ss) + 1)]
        if with_cap:
            ctx.claim('rank_le_cap', ctx.any_([q == 1, ctx.le(q, r)]))
        ok = ctx.any_([q == 1] + [ctx.all_([ctx.le(tails[j], e2), q <= max(1, j)]) for j in range(len(tails))])
        ctx.claim('rank_quasi_optimal', ok)


class _Key:
    """Sort key comparing symbolic values through forking comparisons."""
    def __init__(self, ctx, v):
        self.ctx = ctx
        self.v = v

    def __lt__(self, o):
        return bool(self.v < o.v)


def h_svd_matrix_roundtrip(ctx, q, layout='C'):
    """full_matrix inverts the index interleaving of svd_matrix (the TT-SVD
    inside is replaced by an exact TT of its argument: assume-guarantee with
    the svd harnesses)."""
    N = 2 ** q
    A = mat(ctx, 'a', N, N)
    if layout == 'F':
        A = np.asfortranarray(A)               # e.g. what full_matrix itself returns
    elif layout == 'T':
        A = np.ascontiguousarray(A.T).T        # a transposed view
    import sys
    svdmod = sys.modules['teneva.svd']
    real = svdmod.svd

    def exact_tt(Yf, e=None, r=None):
        # exact (rank = full) TT of a dense array by successive identity factors
        n = Yf.shape
        d = len(n)
        cores = []
        rl = 1
        Z = Yf.reshape(-1, order='C')
        M = Yf
        for k in range(d - 1):
            M = M.reshape(rl * n[k], -1)
            rr = M.shape[0]
            cores.append(eye(ctx, rr).reshape(rl, n[k], rr))
            rl = rr
        cores.append(M.reshape(rl, n[d - 1], 1))
        return cores
    svdmod.svd = exact_tt
    try:
        Y = teneva.svd_matrix(A, 1e-10)
    finally:
        svdmod.svd = real
    ctx.claim('mode_size_4', all(G.shape[1] == 4 for G in Y) and len(Y) == q)
    # the interleaving itself: mode k of the result carries bit k of the row index and bit k of the column index
    from symtt.ref import ref_get
    ok = []
    for row in range(N):
        for col in range(N):
            idx = [((row >> k) & 1) + 2 * ((col >> k) & 1) for k in range(q)]
            ok.append(ctx.eq(ref_get(Y, idx), A[row, col]))
    ctx.claim('mode_k_pairs_row_bit_k_with_column_bit_k', ctx.all_(ok))
    B = teneva.full_matrix(Y)
    ctx.claim('roundtrip', ctx.all_eq(B, A))
    # the result of full_matrix fed back in (whatever its memory order) converts to the same matrix again
    svdmod.svd = exact_tt
    try:
        Y2 = teneva.svd_matrix(B, 1e-10)
    finally:
        svdmod.svd = real
    ctx.claim('roundtrip_twice', ctx.all_eq(teneva.full_matrix(Y2), A))


def instances(tier):
    out = []
    shapes = [(2, 2), (2, 3), (3, 2)] + ([(3, 3)] if tier == 'thorough' else [])
    for m, n in shapes:
        for give_to in 'mlr':
            for rel in (False, True):
                for cap in (False, True):
                    out.append({'func': 'h_skeleton', 'params': {
                        'm': m, 'n': n, 'give_to': give_to, 'rel': rel, 'with_cap': cap}})
    for give_to in 'mlr':
        out.append({'func': 'h_skeleton_antidiag', 'params': {'give_to': give_to}})
    for m, n in [(3, 3), (4, 3), (3, 4)]:
        for give_to in 'mlr':
            for rel in (False, True):
                out.append({'func': 'h_skeleton', 'params': {'m': m, 'n': n, 'give_to': give_to, 'rel': rel, 'with_cap': True,
                                                             'plain': True}})
    # hermitian=True on symmetric indefinite matrices
    for give_to in 'mlr':
        for anti in (False, True):
            out.append({'func': 'h_skeleton_hermitian', 'params': {'give_to': give_to, 'anti': anti}})
    # tail energy exactly equal to the accuracy (<= is admissible)
    for k, tie, rel, give_to in [(2, 1, False, 'm'), (3, 1, True, 'l'), (3, 2, False, 'r'), (3, 2, True, 'm')]:
        out.append({'func': 'h_skeleton', 'params': {'m': k, 'n': k, 'give_to': give_to, 'rel': rel, 'with_cap': False,
                                                     'plain': True, 'tie': tie}})
    for m, n in [(2, 2), (2, 3), (3, 2)]:
        for cap in (False, True):
            out.append({'func': 'h_matrix_svd', 'params': {'m': m, 'n': n, 'with_cap': cap}})
            out.append({'func': 'h_svd_2d', 'params': {'n1': m, 'n2': n, 'with_cap': cap}})
    sd = [(3, 2), (3, 3), (4, 2)] if tier == 'quick' else [(3, 2), (3, 3), (4, 2), (4, 3), (5, 2)]
    for d, n in sd:
        for cap in (False, True):
            if tier == 'quick' and n == 3 and cap:
                continue
            out.append({'func': 'h_svd_superdiag', 'params': {'d': d, 'n': n, 'with_cap': cap}})
    for tr in (False, True):
        out.append({'func': 'h_svd_int_dense', 'params': {'transpose': tr}})
    for w in ([3, 2], [2, 5]):
        out.append({'func': 'h_svd_superdiag', 'params': {'d': 3, 'n': 2, 'with_cap': False, 'int_weights': w}})
    # non-uniform shapes: first unfolding 9 x 4 (very tall), 2 x 12 (very wide), middle one tall
    for pad in ([7, 0, 0], [0, 0, 4], [2, 3, 0]):
        for cap in (False, True):
            out.append({'func': 'h_svd_superdiag', 'params': {'d': 3, 'n': 2, 'with_cap': cap, 'pad': pad}})
    for cap in ((False,) if tier == 'quick' else (False, True)):
        out.append({'func': 'h_svd_perm4', 'params': {'with_cap': cap, 'ordered': True}, 'opts': {'symbolic_signs': False}})
    if tier != 'quick':
        out.append({'func': 'h_svd_perm4', 'params': {'with_cap': False, 'ordered': False}, 'opts': {'symbolic_signs': False}})
    if tier == 'quick':
        out.append({'func': 'h_svd_matrix_roundtrip', 'params': {'q': 3}})       # (the two bit orders differ from q = 3 on)
    for q in ([1, 2] if tier == 'quick' else [1, 2, 3]):
        out.append({'func': 'h_svd_matrix_roundtrip', 'params': {'q': q}})
        for layout in ('F', 'T'):
            out.append({'func': 'h_svd_matrix_roundtrip', 'params': {'q': q, 'layout': layout}})
    return out


BOUNDS = {
    'quick': 'matrix_skeleton: 2x2, 2x3, 3x2, all give_to/rel/cap combinations, symbolic spectrum, e, cap; '
             'matrix_svd and svd (d=2): same shapes with rational orthonormal factors; svd on super-diagonal arrays '
             'd in {3,4}, n in {2,3} with symbolic weights, e, cap; svd_matrix/full_matrix q in {1,2}',
    'thorough': 'adds 3x3 skeleton, super-diagonal d=4 n=3 and d=5 n=2, q=3',
}
OUTSIDE = 'generic (non super-diagonal) arrays with d >= 3; sizes above the listed ones; IEEE rounding; LAPACK internals'
ASSUMPTIONS = ['np.linalg.svd / eigh contract: factors of the input, s descending >= 0 (ties: both orders), '
               'orthonormal factors from Householder parametrisations (chart v_j[j] = 1)', 'exact real arithmetic']
