"""C20 - incomplete TT-SVD recovers low-rank tensors from its structured samples."""
import itertools
import numpy as np
import teneva
from harness.common import *
from symtt.ref import ref_full, ref_get, well_formed, multi_indices


def _script_for(n, m, variant):
    """Scripted outcomes of the without-replacement draws of sample_lhs: m
    distinct values per mode (variant selects which ones)."""
    vals = list(range(n))
    if variant == 'last':
        vals = vals[::-1]
    elif variant == 'mixed':
        vals = vals[1:] + vals[:1]
    return vals[:m]


class _Gen:
    """Generator for sample_lhs: choice(k, m, replace=False) scripted, shuffle identity."""
    def __init__(self, variant):
        self.variant = variant
        self.log = []

    def choice(self, a, size=None, replace=True, p=None):
        k = int(a)
        size = int(size)
        out = _script_for(k, size, self.variant)
        return np.array(out, dtype=int)

    def shuffle(self, x, axis=0):
        return


def h_recover(ctx, n, rho, m, cap_extra, variant, sym_factor):
    """Target of TT-rank rho, samples from the real sample_tt (LHS draws
    scripted: m distinct indices per mode), svd_incomplete with cap m+cap_extra.
    matrix_skeleton is used through its exact-factorisation contract (C03):
    for the rank-rho matrix L R it returns (L S^-1, S R), S invertible."""
    d = len(n)
    T = ctx.tt('t', n, rho)
    if variant == 'forked':
        # every outcome of the Latin-hypercube draws (generator stub, forking); concrete twin: a real generator
        if is_sym(ctx):
            from symtt.stubs_rng import StubGenerator
            g = StubGenerator('lhs')
            g.perm = 'identity'
        else:
            g = 5
        I, idx, idx_many = teneva.sample_tt(n, r=m, seed=g)
    else:
        I, idx, idx_many = teneva.sample_tt(n, r=m, seed=_Gen(variant))
    y = np.array([ref_get(T, tuple(int(x) for x in i)) for i in I], dtype=T[0].dtype)
    cap = m + cap_extra
    if is_sym(ctx):
        import sys
        svdmod = sys.modules['teneva.svd']
        real = svdmod.matrix_skeleton
        # first block: rows n, columns = suffixes j of the LHS sample of the remaining modes
        blk = I[int(idx[0]):int(idx[1])]
        suff = blk[:int(idx_many[0]), 1:]
        L = T[0][0, :, :]                                  # n0 x rho
        Rm = np.empty((L.shape[1], len(suff)), dtype=object)
        for j, sfx in enumerate(suff):
            v = None
            for k in range(d - 1, 0, -1):
                Mk = T[k][:, int(sfx[k - 1]), :]
                v = Mk if v is None else Mk @ v
            Rm[:, j] = v[:, 0]
        q = L.shape[1]
        if sym_factor:
            S = mat(ctx, 's', q, q)
            from symtt import stubs
            Sinv = stubs.np_inv(S)                         # genericity: det S != 0
        else:
            S = eye(ctx, q)
            Sinv = eye(ctx, q)
        calls = []

        def skel(A, e=1e-10, r=1e12, **kw):
            calls.append(A.shape)
            if A.shape != (L.shape[0], Rm.shape[1]) or not bool(ctx.all_eq(A, L @ Rm)):
                from symtt.engine import Unmodelled
                raise Unmodelled('matrix_skeleton on a matrix other than the first sample block')
            return L @ Sinv, S @ Rm
        svdmod.matrix_skeleton = skel
        try:
            Z = teneva.svd_incomplete(I, y, idx, idx_many, e=1e-10, r=cap)
        finally:
            svdmod.matrix_skeleton = real
    else:
        Z = teneva.svd_incomplete(I, y, idx, idx_many, e=1e-10, r=cap)
    ctx.claim('well_formed_same_shape', well_formed(Z, n))
    ctx.claim('finite', finite(ctx, Z))
    ctx.claim('ranks_le_cap', all(G.shape[2] <= cap for G in Z))
    ctx.claim('recovers_target', ctx.all_eq(ref_full(Z), ref_full(T)))
    y_ref = np.array([ref_get(T, tuple(int(x) for x in i)) for i in I], dtype=T[0].dtype)
    ctx.claim('sample_values_untouched', ctx.all_eq(y, y_ref))
    if not is_sym(ctx):
        # same sample array used again (e.g. to try another cap): same answer
        Z2 = teneva.svd_incomplete(I, y, idx, idx_many, e=1e-10, r=cap + 1)
        ctx.claim('second_call_on_same_samples', ctx.all_eq(ref_full(Z2), ref_full(T)))
    ctx.canary('canary', ctx.all_eq(ref_full(Z), ref_full(T) * 2))


def h_concrete_overrank(ctx):
    """Real code, random targets of TT-rank rho with d >= 3 and an expected rank
    m > rho (the interface matrices of the later cores are then rank deficient:
    minimum-norm least squares, not encodable): the tensor is recovered for
    every seed of the sample generator tried."""
    ok, wf, same = True, True, True
    # (rank profiles that grow along the train with a cap between the largest rank and m: the blocks are compressed)
    for n, rho, m, cap in [([4, 4, 4], 1, 2, 1e12), ([4, 4, 4], 2, 3, 1e12), ([5, 4, 5, 4], 2, 3, 1e12), ([4, 4, 4], 1, 3, 3),
                           ([4, 5, 4], 2, 4, 4), ([4, 4, 4], [1, 1, 2, 1], 3, 2), ([5, 5, 5, 5], [1, 1, 2, 3, 1], 4, 3),
                           ([4, 4, 4], [1, 2, 3, 1], 4, 3),
                           # two dimensions with several samples per mode (the first block is n0 x m)
                           ([5, 4], 2, 2, 1e12), ([4, 6], 2, 3, 1e12), ([6, 5], 1, 3, 2)]:
        for seed in range(6):
            T = teneva.rand(n, rho, seed=100 + seed)
            # integer seeds, generator objects (prefix sets of consecutive blocks are then independent draws), no seed
            sd = seed if seed < 3 else (np.random.default_rng(seed) if seed < 5 else None)
            I, idx, idm = teneva.sample_tt(n, r=m, seed=sd)
            y = teneva.get_many(T, I)
            idm = np.asarray(idm)                 # (the block widths as an array: what a caller keeps between calls)
            snap = (np.array(I, copy=True), np.array(idx, copy=True), idm.copy(), y.copy())
            try:
                Z = teneva.svd_incomplete(I, y, idx, idm, e=1e-10, r=cap)
            except np.linalg.LinAlgError:
                ok = False
                continue
            wf = wf and well_formed(Z, n) and all(G.shape[2] <= cap for G in Z)
            F = teneva.full(T)
            ok = ok and bool(np.linalg.norm(teneva.full(Z) - F) <= 1e-6 * np.linalg.norm(F))
            same = same and all(np.array_equal(a_, b_) for a_, b_ in zip(snap, (I, idx, idm, y)))
            if cap < 1e11 and seed < 2:
                # the cap as a NumPy integer (e.g. the maximum of a rank array) or a float: the same limit
                for capk in (np.int64(cap), np.int32(cap), float(cap), np.max(np.array([1, int(cap)]))):
                    Zk = teneva.svd_incomplete(I, y, idx, idm, e=1e-10, r=capk)
                    wf = wf and well_formed(Zk, n) and all(G.shape[2] <= cap for G in Zk)
            if seed == 0:
                # the same sample set used for another tensor, without a cap
                T2 = teneva.rand(n, m if isinstance(rho, int) else max(rho), seed=300)
                try:
                    Z2 = teneva.svd_incomplete(I, teneva.get_many(T2, I), idx, idm, e=1e-10)
                    F2 = teneva.full(T2)
                    ok = ok and bool(np.linalg.norm(teneva.full(Z2) - F2) <= 1e-6 * np.linalg.norm(F2))
                except (ValueError, np.linalg.LinAlgError):
                    ok = False
    ctx.claim('well_formed_ranks_le_cap', bool(wf))
    ctx.claim('recovers_target', bool(ok))
    ctx.claim('sample_set_untouched', bool(same))


def instances(tier):
    out = []
    out.append({'func': 'h_concrete_overrank', 'params': {}, 'opts': {'concrete_only': True}})
    quick = tier == 'quick'
    G = {'generic_divisors': True}
    cfg = [([2, 2], 1, 1, 0, 'first', False), ([2, 2], 1, 2, 0, 'last', False), ([3, 3], 2, 2, 0, 'first', False),
           ([2, 2, 2], 1, 1, 0, 'mixed', False), ([2, 2, 2], 1, 1, 1, 'first', False), ([2, 2], 1, 1, 1, 'first', True)]
    if not quick:
        cfg += [([3, 3, 3], 2, 2, 0, 'first', False), ([3, 3], 2, 3, 0, 'mixed', False), ([3, 3], 2, 2, 1, 'last', True),
                ([2, 2, 2, 2], 1, 1, 0, 'first', False), ([3, 3, 3], 2, 2, 1, 'last', False)]
    cfg += [([3, 3], 2, 2, 0, 'forked', False), ([2, 3], 1, 1, 0, 'forked', False)]
    for n, rho, m, ce, var, sf in cfg:
        o = dict(G)
        if var == 'forked':
            # all LHS outcomes are explored: an identically singular least-squares system
            # (repeated prefixes / suffixes) is a failure, not a non-generic input
            o['zero_divisor_is_failure'] = True
        out.append({'func': 'h_recover', 'params': {'n': n, 'rho': rho, 'm': m, 'cap_extra': ce, 'variant': var,
                                                    'sym_factor': sf}, 'opts': o})
    return out


BOUNDS = {
    'quick': 'd in {2,3}, mode sizes 2-3, rho in {1,2}, expected rank m in {rho, rho+1} <= mode size, cap >= m; symbolic target cores; '
             'LHS draws scripted (three index selections); exact-factorisation freedom of the first skeleton symbolic for one instance',
    'thorough': 'adds (3,3,3) rho=2, m=3, d=4',
}
OUTSIDE = ('expected rank m > rho for d >= 3 (rank-deficient least squares: LAPACK returns the minimum-norm solution, not modelled); caps below the expected rank (a second truncated skeleton on derived data); larger shapes; rounding; the seeds of the '
           'sample generator beyond the scripted selections (recovery holds for any distinct prefixes/suffixes by genericity)')
ASSUMPTIONS = ['matrix_skeleton replaced by its exact-factorisation contract on the first sample block (stub checks that the matrix it '
               'receives is L R)', 'least squares solved exactly for consistent full-column-rank systems (normal equations)',
               'genericity: determinants of the normal matrices non-zero', 'exact real arithmetic']
