"""C05 - TT-cross reproduces low-rank tensors and caching is transparent."""
import itertools
import numpy as np
from fractions import Fraction
import teneva
from harness.common import *
from harness.cross_common import *
from symtt.ref import ref_full, ref_get, well_formed, multi_indices


def h_exact(ctx, n, rho, r0, dr, nswp, choices):
    """Target of exact TT-rank rho through its element oracle; after the working
    ranks reached rho the result equals the target (identity in all symbols,
    for every admissible index choice of the maxvol contract)."""
    T = ctx.tt('t', n, rho)
    orc = Oracle(ctx, target=T)
    Y0 = simple_Y0(n, r0)
    info = {}
    with stubs_installed(ctx, choices):
        Y = teneva.cross(orc, Y0, nswp=nswp, dr_min=dr[0], dr_max=dr[1], info=info)
    ctx.claim('well_formed_same_shape', well_formed(Y, n))
    ctx.claim('finite', finite(ctx, Y))
    ranks = [G.shape[2] for G in Y[:-1]]
    if all(q >= min(rho, _maxrank(n, k)) for k, q in enumerate(ranks)):
        ctx.claim('reproduces_target', ctx.all_eq(ref_full(Y), ref_full(T)))
    else:
        ctx.note(f'working ranks {ranks} below rho={rho}: no exactness claim on this path')
    ctx.claim('info_nswp', info['nswp'] == nswp and info['stop'] == 'nswp')
    er = teneva.erank(Y)
    ctx.claim('info_r_is_erank_of_result', ctx.eq(info['r'], er))
    ctx.canary('canary', ctx.all_eq(ref_full(Y), ref_full(T) * 2))


def h_exact_interrupted(ctx, n, rho, how, after, nswp=2):
    """Fixed-rank start at rho, run interrupted after `after` oracle batches (by
    the evaluation budget or by the objective returning None), at least one
    complete forward half-sweep: the returned tensor equals the target already."""
    d = len(n)
    T = ctx.tt('t', n, rho)
    Y0 = simple_Y0(n, rho)
    ref = Oracle(ctx, target=T)
    with stubs_installed(ctx, 'first'):
        teneva.cross(ref, Y0, nswp=nswp, dr_min=0, dr_max=0, info={})
    sizes = [len(B) for B in ref.batches]
    info = {}
    if how == 'm':
        orc = Oracle(ctx, target=T)
        kw = {'m': sum(sizes[:after])}
    else:
        orc = Oracle(ctx, target=T, none_at=ctx.const(after + 1) if is_sym(ctx) else after + 1)
        kw = {}
    with stubs_installed(ctx, 'first'):
        Y = teneva.cross(orc, Y0, nswp=nswp, dr_min=0, dr_max=0, info=info, **kw)
    ctx.claim('interrupted_where_intended', info['stop'] == ('m' if how == 'm' else 'func') and
              len(orc.batches) == (after if how == 'm' else after + 1))
    ctx.claim('well_formed_same_shape', well_formed(Y, n))
    ctx.claim('reproduces_target', ctx.all_eq(ref_full(Y), ref_full(T)))
    ctx.claim('info_r_is_erank_of_result', ctx.eq(info['r'], teneva.erank(Y)))


def h_interrupted_growing(ctx, n, rho, how, after, nswp=2):
    """Rank growth 1/1 from a rank-1 start, interrupted after `after` oracle
    batches (in the backward half-sweep a bond has just grown and its pending
    factor is folded into the neighbouring core on return): info describes the
    tensor that is returned."""
    T = ctx.tt('t', n, rho)
    Y0 = simple_Y0(n, 1)
    ref = Oracle(ctx, target=T)
    with stubs_installed(ctx, 'first'):
        teneva.cross(ref, Y0, nswp=1 if after <= 2 * len(n) else nswp, dr_min=1, dr_max=1, info={})
    sizes = [len(B) for B in ref.batches]
    info = {}
    if how == 'm':
        orc = Oracle(ctx, target=T)
        kw = {'m': sum(sizes[:after])}
    else:
        orc = Oracle(ctx, target=T, none_at=ctx.const(after + 1) if is_sym(ctx) else after + 1)
        kw = {}
    with stubs_installed(ctx, 'first'):
        Y = teneva.cross(orc, Y0, nswp=nswp, dr_min=1, dr_max=1, info=info, **kw)
    ctx.claim('interrupted_where_intended', info['stop'] == ('m' if how == 'm' else 'func') and
              len(orc.batches) == (after if how == 'm' else after + 1))
    ctx.claim('well_formed_same_shape', well_formed(Y, n))
    ctx.claim('finite', finite(ctx, Y))
    ctx.claim('info_r_is_erank_of_result', ctx.eq(info['r'], teneva.erank(Y)))
    ctx.claim('info_m_counts_answered_requests', info['m'] == sum(sizes[:after]))


def h_concrete_growth_real_maxvol(ctx):
    """Real code end to end (the symbolic instances replace the maxvol dispatcher
    by its contract, so a dispatcher that silently refuses to grow is invisible
    to them): rank growth 1/1 from a start one rank short, on shapes whose
    unfoldings have exactly one free row (all mode sizes 2, or the target rank
    equal to the mode size), with and without cache.  Fixed seeds."""
    ok_exact, ok_ranks = True, True
    for n, rho, r0 in [([2, 2], 2, 1), ([2, 2, 2], 2, 1), ([2, 2, 2, 2], 2, 1), ([4, 4], 4, 3), ([3, 3], 3, 2),
                       ([2, 3, 2], 2, 1), ([3, 2, 3], 2, 1)]:
        for seed in range(3):
            T = teneva.rand(n, rho, seed=seed)
            F = teneva.full(T)
            f = lambda I: np.array([F[tuple(i)] for i in I])
            for with_cache in (False, True):
                Y = teneva.cross(f, teneva.rand(n, r0, seed=100 + seed), nswp=6, dr_min=1, dr_max=1,
                                 cache={} if with_cache else None, info={})
                err = np.linalg.norm(teneva.full(Y) - F) / np.linalg.norm(F)
                ok_exact = ok_exact and bool(err <= 1e-8)
                ok_ranks = ok_ranks and [G.shape[1] for G in Y] == n
    ctx.claim('reproduces_target_after_growth_to_rho', ok_exact)
    ctx.claim('shape_kept', ok_ranks)


def _maxrank(n, k):
    left = int(np.prod(n[:k + 1]))
    right = int(np.prod(n[k + 1:]))
    return min(left, right)


def h_cache(ctx, n, rho, r0, dr, nswp, with_vld=False):
    """Cached and uncached runs under the same index choices: identical cores
    and sweep count, never more evaluations, dictionary = evaluated pairs."""
    T = ctx.tt('t', n, rho)
    Y0 = simple_Y0(n, r0)
    o1 = Oracle(ctx, target=T)
    o2 = Oracle(ctx, target=T)
    i1, i2 = {}, {}
    cache = {}
    kw = {}
    if with_vld:
        Iv = np.array(multi_indices(n)[-2:])
        kw = {'I_vld': Iv, 'y_vld': np.array([ref_get(T, tuple(i)) for i in Iv], dtype=T[0].dtype)}
    with stubs_installed(ctx, 'first'):
        Ya = teneva.cross(o1, Y0, nswp=nswp, dr_min=dr[0], dr_max=dr[1], info=i1, **kw)
        Yb = teneva.cross(o2, Y0, nswp=nswp, dr_min=dr[0], dr_max=dr[1], info=i2, cache=cache, m_cache_scale=10 ** 6, **kw)
    ctx.claim('same_cores', len(Ya) == len(Yb) and all(a.shape == b.shape and bool(ctx.all_eq(a, b)) for a, b in zip(Ya, Yb)))
    ctx.claim('same_sweep_count', i1['nswp'] == i2['nswp'])
    ctx.claim('evaluations_never_grow', i2['m'] <= i1['m'])
    ctx.claim('requests_accounted', i2['m'] + i2['m_cache'] == i1['m'])
    keys = set()
    for B in o2.batches:
        for i in B:
            keys.add(tuple(int(x) for x in i))
    ctx.claim('cache_is_evaluated_pairs', set(cache.keys()) == keys and
              all(bool(ctx.eq(cache[k], ref_get(T, k))) for k in keys))
    ctx.claim('each_index_evaluated_once', sum(len(B) for B in o2.batches) == len(keys))
    ctx.claim('with_cache_flag', i2['with_cache'] is True and i1['with_cache'] is False)


def h_info(ctx, n, rho):
    """info['e_vld'] / info['e'] describe the returned tensor."""
    T = ctx.tt('t', n, rho)
    orc = Oracle(ctx, target=T)
    Y0 = simple_Y0(n, rho)
    mi = multi_indices(n)
    I_vld = np.array([mi[0], mi[1], mi[0]])          # (a validation index measured twice, different values)
    y_vld = vec(ctx, 'v', 3)
    ctx.assume(ctx.gt(y_vld[0], 0))
    info = {}
    olds = []

    def cb(Y, info_, opts):
        olds.append([G.copy() for G in opts['Yold']])
        return False
    with stubs_installed(ctx, 'first') as st:
        Y = teneva.cross(orc, Y0, nswp=2, dr_min=0, dr_max=0, info=info, I_vld=I_vld, y_vld=y_vld, cb=cb)
    # "the tensor of the previous sweep" of the first sweep is the initial approximation itself
    ctx.claim('first_previous_tensor_is_the_initial_one', ctx.all_eq(ref_full(olds[0]), ref_full(Y0)))
    with stubs_installed(ctx, 'first'):
        Yz = teneva.cross(Oracle(ctx, target=T), Y0, nswp=0, dr_min=0, dr_max=0, info={})
    ctx.claim('no_sweep_returns_the_initial_tensor', ctx.all_eq(ref_full(Yz), ref_full(Y0)))
    d2 = sum(((ref_get(Y, tuple(i)) - y_vld[j]) ** 2 for j, i in enumerate(I_vld)), 0)
    ctx.claim('e_vld_is_error_of_result', ctx.eq(info['e_vld'] * info['e_vld'] * sumsq(y_vld), d2))
    if st is not None:
        Y1, Y1c, Y2c, v = st.acc_calls[-1]
        ctx.claim('e_is_distance_of_result_to_previous_sweep',
                  all(bool(ctx.all_eq(a, b)) for a, b in zip(Y1c, Y)) and
                  all(bool(ctx.all_eq(a, b)) for a, b in zip(Y2c, olds[-1])) and bool(ctx.eq(info['e'], v)))
    else:
        ctx.claim('e_is_distance_of_result_to_previous_sweep',
                  ctx.close(info['e'], teneva.accuracy(Y, olds[-1]), 1e-9))


def h_info_edge(ctx, which):
    """info describes the returned tensor also (conv) when the cache test ends the
    run in a sweep that still changed the tensor (validation data, small
    m_cache_scale), and (nswp0 / e_vld0) when the run ends right after the
    preparation sweep of an initial tensor whose ranks exceed what the mode
    sizes allow (the preparation lowers them)."""
    n = [2, 2]
    T = ctx.tt('t', n, 1)
    mi = multi_indices(n)
    I_vld = np.array([mi[0], mi[3]])
    y_vld = vec(ctx, 'v', 2)
    ctx.assume(ctx.gt(y_vld[0], 0))
    info = {}
    if which == 'conv':
        kw = {'nswp': 4, 'cache': {}, 'm_cache_scale': Fraction(1, 10) if is_sym(ctx) else 0.1}
        Y0 = simple_Y0(n, 1)
    elif which == 'nswp0':
        kw = {'nswp': 0}
        Y0 = simple_Y0(n, 3)
    else:
        kw = {'nswp': 3, 'e_vld': 10 ** 6}
        Y0 = simple_Y0(n, 3)
    with stubs_installed(ctx, 'first'):
        Y = teneva.cross(Oracle(ctx, target=T), Y0, dr_min=0, dr_max=0, info=info, I_vld=I_vld, y_vld=y_vld, **kw)
    ctx.claim('well_formed_same_shape', well_formed(Y, n))
    # (e_vld0: a validation error above the huge threshold is possible for tiny validation values; then three sweeps run)
    ctx.claim('documented_stop', info['stop'] in {'conv': ('conv',), 'nswp0': ('nswp',), 'e_vld0': ('e_vld', 'nswp')}[which])
    d2 = sum(((ref_get(Y, tuple(i)) - y_vld[j]) ** 2 for j, i in enumerate(I_vld)), 0)
    ctx.claim('e_vld_is_error_of_result', ctx.eq(info['e_vld'] * info['e_vld'] * sumsq(y_vld), d2))
    ctx.claim('info_r_is_erank_of_result', ctx.eq(info['r'], teneva.erank(Y)))
    if which != 'conv' and info['nswp'] == 0:
        ctx.claim('no_sweep_returns_the_initial_tensor', ctx.all_eq(ref_full(Y), ref_full(Y0)))


def h_info_prev(ctx, n, rho, nswp):
    """No convergence threshold and no callback: info['e'] is still the distance
    of the returned tensor to the tensor of the previous sweep (= the result of
    the same run with one sweep less)."""
    T = ctx.tt('t', n, rho)
    Y0 = simple_Y0(n, rho)
    with stubs_installed(ctx, 'first'):
        Yp = teneva.cross(Oracle(ctx, target=T), Y0, nswp=nswp - 1, dr_min=0, dr_max=0, info={})
    info = {}
    with stubs_installed(ctx, 'first') as st:
        Y = teneva.cross(Oracle(ctx, target=T), Y0, nswp=nswp, dr_min=0, dr_max=0, info=info)
    ctx.claim('info_nswp', info['nswp'] == nswp and info['stop'] == 'nswp')
    if st is not None:
        Y1, Y1c, Y2c, v = st.acc_calls[-1]
        ctx.claim('e_is_distance_of_result_to_previous_sweep',
                  all(bool(ctx.all_eq(a, b)) for a, b in zip(Y1c, Y)) and
                  all(a.shape == b.shape and bool(ctx.all_eq(a, b)) for a, b in zip(Y2c, Yp)) and bool(ctx.eq(info['e'], v)))
    else:
        ctx.claim('e_is_distance_of_result_to_previous_sweep', ctx.close(info['e'], teneva.accuracy(Y, Yp), 1e-7))


def h_interrupted_info(ctx, which):
    """info / cache statements of C05 on interrupted runs (set-ups shared with C06)."""
    from harness import c06
    if which == 'e_vld_on_interrupt':
        c06.h_func_none(ctx, [2, 2], 1, 1, with_vld=True)
    else:
        c06.h_budget(ctx, [2, 2], 1, [0, 0], 1, True)


def instances(tier):
    out = []
    quick = tier == 'quick'
    G = {'generic_divisors': True}
    ex = [([2, 2], 1, 1, (0, 0), 1, 'all'), ([2, 3], 1, 1, (0, 0), 2, 'first'), ([2, 3], 1, 1, (0, 0), 2, 'last'),
          ([2, 2, 2], 1, 1, (0, 0), 1, 'first'), ([2, 2, 2], 1, 1, (0, 0), 1, 'last'),
          ([2, 2], 2, 1, (1, 1), 1, 'first'), ([3, 3], 2, 2, (0, 0), 1, 'first'), ([3, 3], 2, 1, (1, 1), 1, 'last')]
    if not quick:
        ex += [([3, 3], 2, 1, (1, 1), 2, 'first'), ([2, 2, 2], 2, 2, (0, 0), 1, 'first'), ([2, 2, 2, 2], 1, 1, (0, 0), 1, 'first'),
               ([3, 2, 3], 2, 1, (1, 1), 2, 'last'), ([3, 3], 2, 2, (0, 0), 1, 'all')]
    for n, rho, r0, dr, nswp, ch in ex:
        out.append({'func': 'h_exact', 'params': {'n': n, 'rho': rho, 'r0': r0, 'dr': list(dr), 'nswp': nswp, 'choices': ch},
                    'opts': G})
    ca = [([2, 2], 1, 1, (0, 0), 1), ([2, 2], 1, 1, (0, 0), 2), ([2, 2, 2], 1, 1, (0, 0), 1), ([2, 3], 2, 1, (1, 1), 2),
          ([2, 2], 1, 1, (0, 0), 0), ([2, 3], 2, 1, (1, 1), 0)]          # nswp = 0: the run stops before the first sweep
    if not quick:
        ca += [([3, 3], 2, 2, (0, 0), 2), ([2, 2, 2], 2, 1, (1, 1), 2)]
    for n, rho, r0, dr, nswp in ca:
        out.append({'func': 'h_cache', 'params': {'n': n, 'rho': rho, 'r0': r0, 'dr': list(dr), 'nswp': nswp}, 'opts': G})
    out.append({'func': 'h_cache', 'params': {'n': [2, 2], 'rho': 1, 'r0': 1, 'dr': [0, 0], 'nswp': 1, 'with_vld': True}, 'opts': G})
    out.append({'func': 'h_cache', 'params': {'n': [2, 3], 'rho': 1, 'r0': 1, 'dr': [0, 0], 'nswp': 2, 'with_vld': True}, 'opts': G})
    # rank growth by two per sweep on an almost square unfolding (dr_min larger than the free rows)
    out.append({'func': 'h_exact', 'params': {'n': [3, 3], 'rho': 2, 'r0': 2, 'dr': [2, 2], 'nswp': 1, 'choices': 'first'}, 'opts': G})
    if not quick:
        out.append({'func': 'h_exact', 'params': {'n': [3, 2, 3], 'rho': 2, 'r0': 2, 'dr': [2, 3], 'nswp': 1, 'choices': 'first'}, 'opts': G})
    # interruptions after the forward half-sweep (d batches), in the middle and at the end of the backward one
    for n, rho in [([2, 2], 1), ([2, 2, 2], 1), ([3, 3], 2)]:
        for how in ('m', 'func'):
            for after in range(len(n), 2 * len(n) + 1):
                out.append({'func': 'h_exact_interrupted', 'params': {'n': n, 'rho': rho, 'how': how, 'after': after}, 'opts': G})
            # in the second sweep (first request of its backward half included)
            for after in range(2 * len(n) + 1, 4 * len(n)):
                out.append({'func': 'h_exact_interrupted', 'params': {'n': n, 'rho': rho, 'how': how, 'after': after, 'nswp': 3},
                            'opts': G})
    # growing ranks, interrupted at every request of the first sweep and the first of the second
    for n, rho in [([3, 3], 3), ([2, 3, 2], 2)]:
        for how in ('m', 'func'):
            for after in range(1, 2 * len(n) + 1):
                if quick and (after < len(n) or (len(n) == 3 and (how, after) not in (('m', 5), ('func', 4)))):
                    continue
                out.append({'func': 'h_interrupted_growing', 'params': {'n': n, 'rho': rho, 'how': how, 'after': after}, 'opts': G})
    out.append({'func': 'h_concrete_growth_real_maxvol', 'params': {}, 'opts': {'concrete_only': True}})
    out.append({'func': 'h_info', 'params': {'n': [2, 2], 'rho': 1}, 'opts': G})
    out.append({'func': 'h_info_prev', 'params': {'n': [2, 2], 'rho': 1, 'nswp': 2}, 'opts': G})
    out.append({'func': 'h_info_prev', 'params': {'n': [2, 3], 'rho': 1, 'nswp': 3}, 'opts': G})
    for which in ('conv', 'nswp0', 'e_vld0'):
        out.append({'func': 'h_info_edge', 'params': {'which': which}, 'opts': G})
    for which in ('e_vld_on_interrupt', 'cache_with_budget'):
        out.append({'func': 'h_interrupted_info', 'params': {'which': which}, 'opts': G})
    return out


BOUNDS = {
    'quick': 'd=2: (2,2) rho=1 with ALL admissible index choices of every maxvol call; (2,3) rho=1, (2,2)/(3,3) rho=2 with rank growth '
             'from 1, (3,3) rho=2 fixed rank, d=3 (2,2,2) rho=1 with the first / last admissible choice per call; <= 2 sweeps; symbolic target cores; '
             'cache transparency on 4 configurations; info fields',
    'thorough': 'adds (3,3) with growth, d=3 rho=2, d=4 rho=1, all choices for (3,3) rho=2',
}
OUTSIDE = ('that the real maxvol picks a non-singular set for a generic initial tensor (C08 + genericity); rounding; the cache-'
           'specific "conv" stop (m_cache_scale raised so that it does not fire); larger ranks / shapes')
ASSUMPTIONS = ['maxvol / maxvol_rect replaced by their C08 contract, QR relaxed (see cross_common)',
               'genericity: the determinants of the selected sub-matrices are non-zero', 'exact real arithmetic']
