"""C17 - QTT conversion and index maps are mutually inverse and value-preserving."""
import itertools
import numpy as np
import teneva
from harness.common import *
from symtt.ref import ref_full, ref_get, well_formed, multi_indices


def _ivec(ctx, name, d):
    v = np.empty(d, dtype=object if is_sym(ctx) else int)
    for k in range(d):
        v[k] = ctx.integer(f'{name}_{k}')
    return v


def h_index_maps(ctx, d, q, batch):
    """Symbolic integer multi-index I in [0, 2^q)^d."""
    N = 1 << q
    I = _ivec(ctx, 'i', d)
    for k in range(d):
        ctx.assume(ctx.ge(I[k], 0))
        ctx.assume(ctx.lt(I[k], N))
    arg = np.array([I, I]) if batch else I.copy()
    arg0 = arg.copy()
    B = teneva.ind_tt_to_qtt(arg, N)
    ctx.claim('index_argument_untouched', bool(ctx.all_eq(arg, arg0)) if is_sym(ctx) else bool(np.array_equal(arg, arg0)))
    b = B[0] if batch else B
    ctx.claim('shape', np.shape(B) == ((2, d * q) if batch else (d * q,)))
    ctx.claim('bits', ctx.all_([ctx.any_([ctx.eq(x, 0), ctx.eq(x, 1)]) for x in b]))
    # little endian: bit k of the QTT index is bit k of the TT index
    for m in range(d):
        val = sum((b[m * q + k] * (1 << k) for k in range(q)), ctx.const(0))
        ctx.claim('little_endian_expansion', ctx.eq(val, I[m]))
    J = teneva.ind_qtt_to_tt(B, q)
    j = J[0] if batch else J
    ctx.claim('roundtrip_tt_qtt_tt', ctx.all_([ctx.eq(j[m], I[m]) for m in range(d)]))
    if batch:
        ctx.claim('batch_rows_agree', ctx.all_([ctx.eq(B[0][k], B[1][k]) for k in range(d * q)]))
        # a batch with a single row stays a batch in both directions
        B1 = teneva.ind_tt_to_qtt(np.array([I]), N)
        J1 = teneva.ind_qtt_to_tt(B1, q)
        ctx.claim('batch_of_one_keeps_batch_axis', np.shape(B1) == (1, d * q) and np.shape(J1) == (1, d))
        ctx.claim('batch_of_one_roundtrip', ctx.all_([ctx.eq(J1[0][m], I[m]) for m in range(d)]))


def h_index_maps_layout(ctx, d, q, layout):
    """A batch of two different symbolic multi-indices in Fortran order / as a
    transposed view: the maps do not depend on the memory layout of the batch."""
    N = 1 << q
    rows = [_ivec(ctx, 'i', d), _ivec(ctx, 'j', d)]
    for I in rows:
        for k in range(d):
            ctx.assume(ctx.ge(I[k], 0))
            ctx.assume(ctx.lt(I[k], N))
    A = np.array(rows)
    if layout == 'F':
        arg = np.asfortranarray(A)
    elif layout == 'T':
        arg = np.ascontiguousarray(A.T).T             # transposed view of a [d, samples] array
    else:
        arg = A
    B = teneva.ind_tt_to_qtt(arg, N)
    ctx.claim('shape', np.shape(B) == (2, d * q))
    for t, I in enumerate(rows):
        for m in range(d):
            val = sum((B[t][m * q + k] * (1 << k) for k in range(q)), ctx.const(0))
            ctx.claim('little_endian_expansion', ctx.eq(val, I[m]))
    Bq = np.asfortranarray(B) if layout == 'F' else (np.ascontiguousarray(np.asarray(B).T).T if layout == 'T' else B)
    J = teneva.ind_qtt_to_tt(Bq, q)
    ctx.claim('roundtrip_tt_qtt_tt', ctx.all_([ctx.eq(J[t][m], rows[t][m]) for t in range(2) for m in range(d)]))


def h_concrete_large_q(ctx):
    """Index maps at quantisation levels 9..11 (mode sizes 512..2048), concrete
    indices spread over the whole range incl. both ends: mutually inverse, little
    endian (the symbolic instances stop at q = 3, thorough 6)."""
    ok = True
    for q in (9, 10, 11):
        N = 1 << q
        vals = sorted(set([0, 1, 255, 256, 257, 511, 512 % N, N // 2, N - 2, N - 1] + [(37 * t * t + 11 * t) % N for t in range(40)]))
        for d in (1, 2, 3):
            I = np.array([[vals[(t * (k + 1) + k) % len(vals)] for k in range(d)] for t in range(len(vals))])
            B = teneva.ind_tt_to_qtt(I, N)
            ok = ok and B.shape == (len(I), d * q) and set(np.unique(B)) <= {0, 1}
            for k in range(d):
                ok = ok and np.array_equal((B[:, k * q:(k + 1) * q] * (1 << np.arange(q))).sum(axis=1), I[:, k])
            ok = ok and np.array_equal(teneva.ind_qtt_to_tt(B, q), I)
            ok = ok and np.array_equal(teneva.ind_qtt_to_tt(B[3], q), I[3]) and np.array_equal(teneva.ind_tt_to_qtt(I[3], N), B[3])
    ctx.claim('index_maps_inverse_and_little_endian_for_large_q', bool(ok))


def h_concrete_redundant_ranks(ctx):
    """tt_to_qtt on tensors whose TT-ranks are larger than necessary (Y + Y,
    zero-padded cores, ranks above the unfolding sizes): the bonds between modes
    keep the given TT-ranks, values are preserved (real code, fixed inputs: the
    factorisations of generic cores are not encodable)."""
    ok_rank, ok_val = True, True
    cases = []
    Y = teneva.rand([4, 4, 4], 2, seed=1)
    cases.append(teneva.add(Y, Y))
    cases.append(teneva.rand([4, 4, 4], [1, 6, 7, 1], seed=2))
    Z = teneva.rand([2, 2, 2, 2], [1, 3, 5, 3, 1], seed=3)
    cases.append(Z)
    P = [np.concatenate([G, np.zeros_like(G)], axis=2) if k < 2 else G for k, G in enumerate(teneva.rand([4, 2, 4], 2, seed=4))]
    P[1] = np.concatenate([P[1], np.zeros_like(P[1])], axis=0)
    P[2] = np.concatenate([P[2], np.zeros_like(P[2])], axis=0)
    cases.append(P)
    for T in cases:
        n = [G.shape[1] for G in T]
        qs = [int(np.log2(k)) for k in n]
        Q = teneva.tt_to_qtt(T)
        pos = 0
        for k in range(len(T) - 1):
            pos += qs[k]
            ok_rank = ok_rank and Q[pos - 1].shape[2] == T[k].shape[2] and Q[pos].shape[0] == T[k].shape[2]
        F = teneva.full(T)
        Fq = teneva.full(Q).reshape(F.shape, order='F')
        ok_val = ok_val and np.linalg.norm(Fq - F) <= 1e-8 * max(1., np.linalg.norm(F))
        back = teneva.qtt_to_tt(Q, qs[0]) if len(set(qs)) == 1 else None
        if back is not None:
            ok_val = ok_val and np.linalg.norm(teneva.full(back) - F) <= 1e-8 * max(1., np.linalg.norm(F))
    # cores of integer dtype (q >= 2) and a mode of size 512 (q = 9)
    Yi = [np.array([[[1, 0], [2, 1], [0, 3], [1, 1]]]), np.array([[[2], [1], [0], [3]], [[1], [1], [2], [0]]])]
    Q = teneva.tt_to_qtt(Yi)
    Fi = teneva.full(Yi)
    ok_val = ok_val and np.linalg.norm(teneva.full(Q).reshape(Fi.shape, order='F') - Fi) <= 1e-10 * np.linalg.norm(Fi)
    ok_val = ok_val and np.linalg.norm(teneva.full(teneva.qtt_to_tt(Q, 2)) - Fi) <= 1e-10 * np.linalg.norm(Fi)
    for nbig in (512, 1024):
        Yb = [np.cos(np.arange(nbig) / 50.).reshape(1, nbig, 1), np.sin(np.arange(4) + 1.).reshape(1, 4, 1)]
        try:
            Qb = teneva.tt_to_qtt(Yb, e=1e-12)
            Fb = teneva.full(Yb)
            ok_val = ok_val and np.linalg.norm(teneva.full(Qb).reshape(Fb.shape, order='F') - Fb) <= 1e-8 * np.linalg.norm(Fb)
        except ValueError:
            ok_val = False          # a power of two was rejected
    ctx.claim('bonds_between_modes_keep_tt_ranks', bool(ok_rank))
    ctx.claim('values_preserved', bool(ok_val))


def h_index_maps_rev(ctx, d, q):
    """Symbolic bit vector -> TT index -> bits."""
    b = _ivec(ctx, 'b', d * q)
    for x in b:
        ctx.assume(ctx.ge(x, 0))
        ctx.assume(ctx.le(x, 1))
    J = teneva.ind_qtt_to_tt(b, q)
    for m in range(d):
        val = sum((b[m * q + k] * (1 << k) for k in range(q)), ctx.const(0))
        ctx.claim('value', ctx.eq(J[m], val))
    B = teneva.ind_tt_to_qtt(J, 1 << q)
    ctx.claim('roundtrip_qtt_tt_qtt', ctx.all_([ctx.eq(B[k], b[k]) for k in range(d * q)]))


def h_index_maps_sequence(ctx, combos):
    """Several (d, q) with the same number of bits d*q converted one after the
    other in ONE process (symbolic bit vectors): each conversion depends on its
    own arguments only."""
    for t, (d, q) in enumerate(combos):
        if t < len(combos) - 1:
            # (the earlier conversions run on a fixed bit pattern: they only have to have happened)
            b = np.array([(k * 5 + t) % 2 for k in range(d * q)])
        else:
            b = _ivec(ctx, f'b{t}_', d * q)
            for x in b:
                ctx.assume(ctx.ge(x, 0))
                ctx.assume(ctx.le(x, 1))
        J = teneva.ind_qtt_to_tt(b, q)
        ctx.claim('shape', len(J) == d)
        if len(J) == d:
            ctx.claim('value', ctx.all_([ctx.eq(J[m], sum((b[m * q + k] * (1 << k) for k in range(q)), ctx.const(0)))
                                         for m in range(d)]))
        Jb = teneva.ind_qtt_to_tt(np.array([list(b), list(b)]), q)
        ctx.claim('batch_equals_single', Jb.shape == (2, d) and bool(ctx.all_([ctx.eq(Jb[1, m], J[m]) for m in range(d)]))
                  if len(J) == d else False)
        Bq = teneva.ind_tt_to_qtt(J, 1 << q)
        ctx.claim('roundtrip_qtt_tt_qtt', ctx.all_([ctx.eq(Bq[k], b[k]) for k in range(d * q)]))


def h_non_power_of_two(ctx, n):
    I = _ivec(ctx, 'i', 2)
    ctx.raises(ValueError, 'ind_map_rejects', teneva.ind_tt_to_qtt, I, n)
    G = ctx.array('g', (1, n, 1))
    ctx.raises(ValueError, 'core_rejects', teneva.core_tt_to_qtt, G)
    Y = ctx.tt('y', [n, n], 1)
    ctx.raises(ValueError, 'tt_to_qtt_rejects', teneva.tt_to_qtt, Y)


def h_non_power_of_two_large(ctx, n):
    """Mode sizes next to a large power of two (where log2(n) is within float
    tolerance of an integer) are rejected by the index map as well."""
    ctx.raises(ValueError, 'ind_map_rejects', teneva.ind_tt_to_qtt, np.array([0, 1]), n)


def _relaxed_matrix_svd(ctx):
    """Exact-factorisation contract of matrix_svd (proved in C03): any (A T^-1, T)
    with the returned inner size equal to the number of columns/rows kept.  Here
    the trivial member (A, I) resp. (I, A) is used, which is exact and keeps all
    information (e = 0 semantics)."""
    import sys
    svdmod = sys.modules['teneva.svd']
    real = svdmod.matrix_svd

    def stub(A, e=1e-10, r=1e12):
        m, n = A.shape
        if m <= n:
            return eye(ctx, m), A.copy()
        return A.copy(), eye(ctx, n)
    return svdmod, real, stub


def h_convert(ctx, d, q, r):
    """tt_to_qtt / qtt_to_tt with the exact-factorisation contract of
    matrix_svd: value preservation and index correspondence (identities)."""
    N = 1 << q
    Y = ctx.tt('y', [N] * d, r)
    Y0 = [G.copy() for G in Y]
    if is_sym(ctx):
        import teneva as tv
        svdmod, real, stub = _relaxed_matrix_svd(ctx)
        saved = tv.matrix_svd
        tv.matrix_svd = stub
        try:
            Z = teneva.tt_to_qtt(Y, 1e-14, 100)
        finally:
            tv.matrix_svd = saved
    else:
        Z = teneva.tt_to_qtt(Y, 1e-14, 100)
    ctx.claim('qtt_well_formed', well_formed(Z, [2] * (d * q)))
    ctx.claim('finite', finite(ctx, Z))
    # bonds between modes keep the TT ranks (exact factorisation may carry more inside a mode)
    ranks = [1] + [G.shape[2] for G in Z]
    ctx.claim('mode_bonds_keep_tt_ranks', all(ranks[(m + 1) * q] == Y0[m].shape[2] for m in range(d)))
    F = ref_full(Y0)
    ok = []
    for idx in multi_indices([N] * d):
        bits = []
        for i in idx:
            bits.extend((i >> k) & 1 for k in range(q))
        ok.append(ctx.eq(ref_get(Z, bits), F[idx]))
    ctx.claim('qtt_entry_at_binary_expansion', ctx.all_(ok))
    W = teneva.qtt_to_tt(Z, q)
    ctx.claim('back_well_formed', well_formed(W, [N] * d))
    ctx.claim('roundtrip_same_tensor', ctx.all_eq(ref_full(W), F))
    ctx.claim('argument_untouched', all(bool(ctx.all_eq(a, b)) for a, b in zip(Y, Y0)))


def h_core_roundtrip_q1(ctx, r1, r2):
    """q = 1 with the real matrix_svd (single eigh, parametrised)."""
    m = r1 * 2
    k = min(m, r2)
    U = householder_frame(ctx, 'p', m, k)
    V = householder_frame(ctx, 'q', r2, k).T
    s = vec(ctx, 's', k)
    for i in range(k - 1):
        ctx.assume(ctx.ge(s[i], s[i + 1]))
    ctx.assume(ctx.gt(s[k - 1], 0))
    S = zeros(ctx, (k, k))
    for i in range(k):
        S[i, i] = s[i]
        ctx.register_root(s[i] * s[i], 2, s[i])
    A = U @ S @ V
    C = A @ A.T if m <= r2 else A.T @ A
    W = U if m <= r2 else V.T
    w_asc = np.array([s[i] * s[i] for i in range(k - 1, -1, -1)], dtype=A.dtype)
    expect(ctx, 'eigh', C, (w_asc, W[:, ::-1].copy()))
    G = np.reshape(A, (r1, 2, r2), order='F')
    Q = teneva.core_tt_to_qtt(G, 0., 100)
    ctx.claim('one_core', len(Q) == 1 and Q[0].shape[1] == 2)
    G2 = teneva.core_qtt_to_tt(Q)
    ctx.claim('roundtrip', ctx.all_eq(G2, G))


def h_qtt_cap(ctx, r, cap, rows):
    """core_tt_to_qtt with the REAL matrix_svd on a sparse core (r, 4, r) whose
    unfoldings are generalised permutation matrices (closed-form eigh), symbolic
    positive weights, accuracy e and a concrete rank cap: every bond created
    inside the mode respects the cap, the outer bonds keep the TT-ranks, and
    without truncation the core is reproduced."""
    G = zeros(ctx, (r, 4, r))
    w = vec(ctx, 'w', r)
    A = np.reshape(G, (-1, r), order='F').copy()
    for c in range(r):
        ctx.assume(ctx.gt(w[c], 0))
        A[rows[c], c] = w[c]
    G = np.reshape(A, (r, 4, r), order='F')
    G0 = G.copy()
    e = ctx.real('e')
    ctx.assume(ctx.gt(e, 0))
    Q = teneva.core_tt_to_qtt(G, e, cap)
    ctx.claim('two_qtt_cores', len(Q) == 2 and all(q.shape[1] == 2 for q in Q))
    ctx.claim('outer_bonds_keep_tt_ranks', Q[0].shape[0] == r and Q[-1].shape[2] == r)
    ctx.claim('inner_bond_le_cap', Q[0].shape[2] <= max(1, cap))
    ctx.claim('finite', finite(ctx, Q))
    G2 = teneva.core_qtt_to_tt(Q)
    wmin2 = ctx.min_([x * x for x in w])
    if cap >= r:
        ctx.claim('reproduced_when_nothing_truncated', ctx.any_([ctx.ge(e * e, wmin2), ctx.all_eq(G2, G0)]))
    ctx.claim('argument_untouched', ctx.all_eq(G, G0))


def instances(tier):
    out = []
    quick = tier == 'quick'
    for d, q in ([(1, 1), (1, 3), (2, 2), (3, 1)] if quick else [(1, 1), (1, 4), (1, 6), (2, 2), (2, 3), (3, 2)]):
        for batch in (False, True):
            out.append({'func': 'h_index_maps', 'params': {'d': d, 'q': q, 'batch': batch}})
        out.append({'func': 'h_index_maps_rev', 'params': {'d': d, 'q': q}})
    for d, q in [(2, 1), (2, 2), (3, 1)]:
        for layout in ('F', 'T'):
            out.append({'func': 'h_index_maps_layout', 'params': {'d': d, 'q': q, 'layout': layout}})
    out.append({'func': 'h_index_maps_sequence', 'params': {'combos': [[2, 2], [4, 1], [1, 4]]}})
    out.append({'func': 'h_index_maps_sequence', 'params': {'combos': [[1, 4], [2, 2]]}})
    out.append({'func': 'h_index_maps_sequence', 'params': {'combos': [[3, 2], [2, 3]]}})
    out.append({'func': 'h_concrete_redundant_ranks', 'params': {}, 'opts': {'concrete_only': True}})
    out.append({'func': 'h_concrete_large_q', 'params': {}, 'opts': {'concrete_only': True}})
    for n in (3, 6):
        out.append({'func': 'h_non_power_of_two', 'params': {'n': n}})
    for n in (2 ** 17 + 1, 2 ** 30 + 1, 2 ** 40 - 1, 2 ** 52 + 1):
        out.append({'func': 'h_non_power_of_two_large', 'params': {'n': n}})
    for d, q, r in ([(2, 1, 2), (2, 2, 2), (3, 1, 2), (1, 2, 1), (1, 3, 1)] if quick else [(2, 1, 2), (2, 2, 2), (3, 1, 2), (2, 3, 2), (3, 2, 2), (2, 2, 3), (1, 2, 1), (1, 3, 1), (1, 1, 1)]):
        out.append({'func': 'h_convert', 'params': {'d': d, 'q': q, 'r': r}})
    for r1, r2 in [(1, 2), (2, 2), (1, 1)]:
        out.append({'func': 'h_core_roundtrip_q1', 'params': {'r1': r1, 'r2': r2}})
    for r, cap, rows in [(2, 1, [0, 5]), (2, 2, [0, 5]), (2, 4, [1, 6]), (1, 1, [2]), (2, 3, [3, 4])]:
        out.append({'func': 'h_qtt_cap', 'params': {'r': r, 'cap': cap, 'rows': rows}, 'opts': {'symbolic_signs': False}})
    return out


BOUNDS = {
    'quick': 'index maps: (d,q) in {(1,1),(1,3),(2,2),(3,1)}, symbolic integer multi-indices over the whole range, single and batch; '
             'conversion: [2^q]*d with (d,q,r) in {(2,1,2),(2,2,2),(3,1,2)} under the exact-factorisation contract of matrix_svd; '
             'q=1 cores with the real matrix_svd (eigh parametrised)',
    'thorough': 'adds q up to 6 for index maps, (d,q,r) up to (2,3,2),(3,2,2),(2,2,3)',
}
OUTSIDE = ('non-power-of-two rejection is checked for the sizes 3 and 6 only (a float test on log2(n) cannot be encoded); accuracy-e truncation and rank caps inside a mode for generic cores (chains of factorisations of derived matrices; the '
           'matrix-level rank/accuracy contract is C03); larger q*d')
ASSUMPTIONS = ['np.unravel_index / ravel_multi_index modelled by div/mod on solver integers',
               'matrix_svd replaced by its exact-factorisation contract (identity factor) for q >= 2', 'exact real arithmetic']
