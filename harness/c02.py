"""C02 - truncate keeps the error within e*||Y|| and never exceeds rank caps."""
import itertools
import numpy as np
import teneva
from harness.common import *
from harness.c03 import spectrum, diag, rank_spec, _Key
from harness.c04 import rF, quasi_diag_tt
from symtt.ref import ref_full, well_formed


def h_generic_d2(ctx, n1, r, n2, is_eigh, use_stab, with_cap, fixed_q=False):
    """Generic 2-D tensor: cores G1 := Q R, G2 := R^-1 U diag(w) V0 with Q, U, V0
    from Householder parametrisations, R upper triangular invertible, w >= 0
    descending (rank-deficient second factor allowed)."""
    k1 = min(n1, r)
    # fixed_q: the orthonormal factor of the first core is the identity (bond rank
    # above the last mode size at affordable cost; R stays symbolic)
    Q = eye(ctx, n1)[:, :k1].copy() if fixed_q else householder_frame(ctx, 'q', n1, k1)
    R = upper(ctx, 'r', k1, r)
    if k1 != r:
        raise NotImplementedError
    for i in range(r):
        ctx.assume(ctx.not_(ctx.eq(R[i, i], 0)), 'first core has full column rank')
    M0 = Q @ R
    expect(ctx, 'qr', M0, (Q, R))
    cols = n2
    k2 = min(r, cols)
    U = householder_frame(ctx, 'u', r, k2)
    V0 = householder_frame(ctx, 'v', cols, k2).T
    w = spectrum(ctx, k2)
    M = U @ diag(ctx, w) @ V0                      # = R @ G2 after orthogonalisation
    if is_eigh:
        C = M @ M.T if r <= cols else M.T @ M
        W = U if r <= cols else V0.T
        w_asc = np.array([w[i] * w[i] for i in range(k2 - 1, -1, -1)], dtype=M.dtype)
        expect(ctx, 'eigh', C, (w_asc, W[:, ::-1].copy()))
        for i in range(k2):
            ctx.register_root(w[i] * w[i], 2, w[i])
    else:
        expect(ctx, 'svd', M, (U, w, V0))
    if r == 2:
        Rinv = np.array([[1 / R[0, 0], -R[0, 1] / (R[0, 0] * R[1, 1])],
                         [ctx.const(0), 1 / R[1, 1]]], dtype=M.dtype)
    elif r == 1:
        Rinv = np.array([[1 / R[0, 0]]], dtype=M.dtype)
    elif is_sym(ctx):
        from symtt import stubs
        Rinv = stubs.np_inv(R)
    else:
        Rinv = np.linalg.inv(R)
    G2 = Rinv @ M
    Y = [rF(M0, (1, n1, r)), rF(G2, (r, n2, 1))]
    Y0 = [G.copy() for G in Y]
    e = ctx.real('e')
    ctx.assume(ctx.gt(e, 0))
    ctx.assume(ctx.lt(e, 1))
    if with_cap is True:
        cap = ctx.integer('cap')
        ctx.assume(ctx.ge(cap, 1))
    else:
        cap = int(with_cap) if with_cap else None
    Z = teneva.truncate(Y, e, cap if with_cap else 1.E+12, use_stab=use_stab, is_eigh=is_eigh)
    ctx.claim('well_formed', well_formed(Z, [n1, n2]))
    ctx.claim('finite', finite(ctx, Z))
    q = Z[0].shape[2]
    ctx.claim('rank_le_input', q <= r)
    F0 = ref_full(Y0)
    nrm2 = sumsq(F0)
    tails = [sum((x * x for x in w[j:]), ctx.const(0)) for j in range(k2 + 1)]
    ctx.claim('norm_is_spectrum', ctx.eq(nrm2, tails[0]))
    err2 = sumsq(ref_full(Z) - F0)
    ctx.claim('error_is_tail_energy', ctx.eq(err2, tails[q]))
    e2 = e * e * nrm2                      # d = 2: per-unfolding budget (e ||Y|| / sqrt(d-1))^2
    ctx.claim('rank_is_smallest_within_cap', rank_spec(ctx, q, tails, e2, cap))
    if with_cap:
        ctx.claim('cap', ctx.any_([q == 1, ctx.le(q, cap)]))
    cap_binds = ctx.eq(cap, q) if with_cap else False
    ctx.claim('error_bound_or_cap', ctx.any_([ctx.le(err2, e2), cap_binds]))
    ctx.claim('argument_untouched', all(bool(ctx.all_eq(a, b)) for a, b in zip(Y, Y0)))
    ctx.canary('canary', ctx.eq(err2, tails[0] + 1))


def h_quasi(ctx, d, n, is_eigh, use_stab, with_cap, shift=0, lead=False, dummy=False):
    """Super-diagonal TT with symbolic positive weights: all factorisations in
    closed form, so d >= 3, thresholds, caps and the mode flag run end to end.
    shift != 0: permuted bond gauge (non-symmetric core unfoldings); lead: an
    extra leading core of TT-rank 1 carrying a symbolic factor u; dummy: an
    interior mode of size 1 (identity core n x 1 x n behind the first core): the
    tensor has one more unfolding with the same singular values, and the budget
    of the property is still e ||Y|| over all len(Y) - 1 truncations."""
    Y, W = quasi_diag_tt(ctx, d, n, shift=shift)
    if dummy:
        D = zeros(ctx, (n, 1, n))
        for i in range(n):
            D[i, 0, i] = ctx.const(1)
        Y = Y[:1] + [D] + Y[1:]
    u = None
    if lead:
        u = ctx.real('u')
        ctx.assume(ctx.gt(u, 0))
        L = zeros(ctx, (1, n, 1))
        L[0, 0, 0] = u
        Y = [L] + Y
    Y0 = [G.copy() for G in Y]
    dd = len(Y)
    e = ctx.real('e')
    ctx.assume(ctx.gt(e, 0))
    ctx.assume(ctx.lt(e, 1))
    # with_cap: True = symbolic integer cap, an integer = that concrete cap
    if with_cap is True:
        cap = ctx.integer('cap')
        ctx.assume(ctx.ge(cap, 1))
    else:
        cap = int(with_cap) if with_cap else None
    Z = teneva.truncate(Y, e, cap if with_cap else 1.E+12, use_stab=use_stab, is_eigh=is_eigh)
    ctx.claim('well_formed', well_formed(Z, [G.shape[1] for G in Y0]))
    ctx.claim('finite', finite(ctx, Z))
    ranks = [G.shape[2] for G in Z[:-1]]
    ctx.claim('rank_le_input', all(q <= G.shape[2] for q, G in zip(ranks, Y0)))
    # entries a_i = (u) prod_k w_{k,i}; every unfolding right of the leading core has singular values {a_i}
    a = [None] * n
    for i in range(n):
        p = ctx.const(1) if u is None else u
        for k in range(d):
            p = p * W[k][i]
        a[i] = p
    F0 = ref_full(Y0)
    nrm2 = sum((x * x for x in a), ctx.const(0))
    err2 = sumsq(ref_full(Z) - F0)
    srt = sorted(range(n), key=lambda i: _Key(ctx, a[i]), reverse=True)
    sa = [a[i] for i in srt]
    tails = [sum((x * x for x in sa[j:]), ctx.const(0)) for j in range(n + 1)]
    lead_tails = [nrm2, ctx.const(0)]               # bond behind the leading core: one singular value ||Y||
    budget = e * e * nrm2 / (dd - 1)         # (e ||Y|| / sqrt(d-1))^2
    btails = []
    for b, q in enumerate(ranks):
        tl = lead_tails if (lead and b == 0) else tails
        btails.append(tl)
        if with_cap:
            ctx.claim('cap', ctx.any_([q == 1, ctx.le(q, cap)]))
        ok = ctx.any_([q == 1] + [ctx.all_([ctx.le(tl[j], budget), q <= max(1, j)]) for j in range(len(tl))])
        ctx.claim('rank_quasi_optimal', ok)
    cap_binds = ctx.any_([ctx.eq(cap, q) for q in ranks]) if with_cap else False
    ctx.claim('error_bound_or_cap', ctx.any_([ctx.le(err2, e * e * nrm2), cap_binds]))
    # never worse than the root-sum-square of the best errors at the returned ranks
    rss = sum((tl[min(q, len(tl) - 1)] for q, tl in zip(ranks, btails)), ctx.const(0))
    ctx.claim('error_le_rss_of_best', ctx.le(err2, rss))
    ctx.claim('argument_untouched', all(bool(ctx.all_eq(x, y)) for x, y in zip(Y, Y0)))


def h_quasi_outer(ctx, n, is_eigh, use_stab):
    """Outer product of two super-diagonal tensors (d = 2 + 2): an interior
    TT-rank-1 bond with truncatable bonds on both sides."""
    YA, WA = quasi_diag_tt(ctx, 2, n, name='p')
    YB, WB = quasi_diag_tt(ctx, 2, n, name='q')
    Y = YA + YB
    Y0 = [G.copy() for G in Y]
    dd = 4
    e = ctx.real('e')
    ctx.assume(ctx.gt(e, 0))
    ctx.assume(ctx.lt(e, 1))
    Z = teneva.truncate(Y, e, use_stab=use_stab, is_eigh=is_eigh)
    ctx.claim('well_formed', well_formed(Z, [n] * dd))
    ranks = [G.shape[2] for G in Z[:-1]]
    a = [WA[0][i] * WA[1][i] for i in range(n)]
    b = [WB[0][i] * WB[1][i] for i in range(n)]
    na2 = sum((x * x for x in a), ctx.const(0))
    nb2 = sum((x * x for x in b), ctx.const(0))
    nrm2 = na2 * nb2
    F0 = ref_full(Y0)
    err2 = sumsq(ref_full(Z) - F0)
    ctx.claim('error_bound', ctx.le(err2, e * e * nrm2))
    budget = e * e * nrm2 / (dd - 1)

    def tails_of(vals, other2):
        srt = sorted(range(n), key=lambda i: _Key(ctx, vals[i]), reverse=True)
        sv = [vals[i] for i in srt]
        return [sum((x * x for x in sv[j:]), ctx.const(0)) * other2 for j in range(n + 1)]
    tl = [tails_of(a, nb2), [nrm2, ctx.const(0)], tails_of(b, na2)]
    ctx.claim('middle_bond_rank_one', ranks[1] == 1)
    for q, t in zip(ranks, tl):
        ok = ctx.any_([q == 1] + [ctx.all_([ctx.le(t[j], budget), q <= max(1, j)]) for j in range(len(t))])
        ctx.claim('rank_quasi_optimal', ok)
    rss = sum((t[min(q, len(t) - 1)] for q, t in zip(ranks, tl)), ctx.const(0))
    ctx.claim('error_le_rss_of_best', ctx.le(err2, rss))


def h_add_many(ctx, n, trunc_freq, cap=None):
    """add_many on disjoint-support rank-1 summands (d = 3): the sum is the
    super-diagonal tensor; the final rounding obeys the bound."""
    d = 3
    Ys = []
    a = []
    for i in range(n):
        wv = vec(ctx, f'c{i}', d)
        cores = []
        p = ctx.const(1)
        for k in range(d):
            ctx.assume(ctx.gt(wv[k], 0))
            G = zeros(ctx, (1, n, 1))
            G[0, i, 0] = wv[k]
            cores.append(G)
            p = p * wv[k]
        Ys.append(cores)
        a.append(p)
    e = ctx.real('e')
    ctx.assume(ctx.gt(e, 0))
    ctx.assume(ctx.lt(e, 1))
    if cap is None:
        Z = teneva.add_many(Ys, e=e, trunc_freq=trunc_freq)
    else:
        Z = teneva.add_many(Ys, e=e, r=cap, trunc_freq=trunc_freq)
        ctx.claim('rank_le_cap', all(G.shape[2] <= max(1, cap) for G in Z))
    ctx.claim('well_formed', well_formed(Z, [n] * d))
    F0 = zeros(ctx, (n,) * d)
    for i in range(n):
        F0[(i,) * d] = a[i]
    nrm2 = sum((x * x for x in a), ctx.const(0))
    err2 = sumsq(ref_full(Z) - F0)
    steps = (n - 1) // trunc_freq + 1
    # each rounding step adds at most e * (norm of what it rounds) <= e * ||sum||
    if cap is None:
        ctx.claim('error_bound_accumulated', ctx.le(err2, e * e * nrm2 * steps * steps))
    ctx.claim('finite', finite(ctx, Z))


def h_add_many_cancel(ctx, trunc_freq, cap):
    """add_many([A, B, -B]) with an intermediate rounding of A + B and a cap that
    is idle for the exact total A (rank 1) but below the rank of the partial sum:
    the cap must not be applied to partial sums (d = 3, disjoint supports)."""
    d, n = 3, 2
    Ys, a = [], []
    for i in range(2):
        wv = vec(ctx, f'c{i}', d)
        cores, p = [], ctx.const(1)
        for k in range(d):
            ctx.assume(ctx.gt(wv[k], 0))
            G = zeros(ctx, (1, n, 1))
            G[0, i, 0] = wv[k]
            cores.append(G)
            p = p * wv[k]
        Ys.append(cores)
        a.append(p)
    neg = [G.copy() for G in Ys[1]]
    neg[0] = neg[0] * (-1)
    e = ctx.real('e')
    ctx.assume(ctx.gt(e, 0))
    ctx.assume(ctx.lt(e, 1))
    Z = teneva.add_many([Ys[0], Ys[1], neg], e=e, r=cap, trunc_freq=trunc_freq)
    ctx.claim('well_formed', well_formed(Z, [n] * d))
    ctx.claim('rank_le_cap', all(G.shape[2] <= max(1, cap) for G in Z))
    F0 = zeros(ctx, (n,) * d)
    F0[(0,) * d] = a[0]
    err2 = sumsq(ref_full(Z) - F0)
    # two rounding steps, each within e times the norm of what it rounds (<= ||A + B||)
    ctx.claim('error_bound_accumulated', ctx.le(err2, e * e * (a[0] * a[0] + a[1] * a[1]) * 4))
    ctx.claim('finite', finite(ctx, Z))


def h_vanishing(ctx, n, is_eigh, use_stab, which):
    """A tensor that vanishes identically (super-diagonal cores with symbolic
    weights, core `which` replaced by zeros; which = None: add_many of two such
    terms): every spectrum fits any budget, so the smallest admissible rank is
    1 on every bond, the values stay zero and the shape is kept."""
    d = 3
    e = ctx.real('e')
    ctx.assume(ctx.gt(e, 0))
    ctx.assume(ctx.lt(e, 1))

    def make(tag, k):
        Y, W = quasi_diag_tt(ctx, d, n, name=tag)
        Y[k] = zeros(ctx, Y[k].shape)
        return Y
    if which is None:
        Z = teneva.add_many([make('a', 0), make('b', 2)], e=e, trunc_freq=1)
    else:
        Z = teneva.truncate(make('a', which), e, use_stab=use_stab, is_eigh=is_eigh)
    ctx.claim('well_formed', well_formed(Z, [n] * d))
    ctx.claim('finite', finite(ctx, Z))
    ctx.claim('vanishing_tensor_ranks_one', all(G.shape[2] == 1 for G in Z))
    ctx.claim('values_zero', ctx.all_eq(ref_full(Z), zeros(ctx, (n,) * d)))


def h_concrete_wide_spectrum(ctx):
    """Real code, fixed inputs with singular values spread over many orders of
    magnitude and accuracies between them (tail energies far below the double
    precision of the total energy): error within e times the norm, no rank
    above the smallest admissible one.  Supplementary to the symbolic
    instances: exact arithmetic cannot see absorption of small terms."""
    ok_err, ok_rank = True, True
    rot = lambda t: np.array([[np.cos(t), -np.sin(t)], [np.sin(t), np.cos(t)]])
    for s2, e in [(1e-10, 1e-12), (1e-10, 1e-9), (1e-13, 1e-14), (1e-6, 1e-7), (3e-9, 1e-9)]:
        A = rot(0.3) @ np.diag([1., s2]) @ rot(1.1)
        for is_eigh in (True, False):
            Y = [A[:, :].reshape(1, 2, 2).copy(), np.eye(2).reshape(2, 2, 1).copy()]
            Z = teneva.truncate(Y, e, is_eigh=is_eigh)
            err = np.linalg.norm(teneva.full(Z) - A)
            want = 1 if s2 <= e * np.sqrt(1 + s2 ** 2) else 2
            # (the eigen-decomposition mode squares the spectrum: its floor is sqrt(eps), stated in the docstring)
            floor_ok = (not is_eigh) or s2 >= 1e-7 or want == 1
            if floor_ok:
                ok_err = ok_err and err <= e * np.linalg.norm(A) * (1 + 1e-6)
                ok_rank = ok_rank and Z[0].shape[2] <= want
        for rel in (False, True):
            U, V = teneva.matrix_skeleton(A, e, rel=rel)
            err = np.linalg.norm(U @ V - A)
            ok_err = ok_err and err <= e * (1 + 1e-6)
            ok_rank = ok_rank and U.shape[1] <= (1 if s2 <= e else 2)
    ctx.claim('error_within_budget', bool(ok_err))
    ctx.claim('rank_not_above_smallest_admissible', bool(ok_rank))


def h_concrete_stab_dense_last(ctx):
    """Stabilised rounding of F = e0 x e0 x 1_L + s e1 x e1 x alt_L (alt = +-1
    alternating): both unfoldings have the singular values sqrt(L) (1, s), but
    the weight that travels to the left through the sweep is concentrated in
    single entries of magnitude sqrt(L), far outside [1, 2).  Accuracies placed
    so that s sqrt(L) lies between sqrt(2) and 2 .. 4 times the per-unfolding
    budget: both bonds must keep rank 2 and the result is exact (real code,
    exact power-of-two bookkeeping is outside the scale-variable model: its
    counterexamples for this family are spurious and do not replay)."""
    ok_err, ok_rank, ok_same = True, True, True
    for L, s_ in [(32, 0.1), (16, 0.25), (64, 0.05), (8, 0.3)]:
        one = np.ones(L)
        alt = np.array([(-1.) ** k for k in range(L)])
        Y = [np.eye(2).reshape(1, 2, 2).copy(), np.array([[[1., 0.], [0., 0.]], [[0., 0.], [0., 1.]]]),
             np.stack([one, s_ * alt]).reshape(2, L, 1).copy()]
        F = teneva.full(Y)
        nrm = np.linalg.norm(F)
        sig2 = s_ * np.sqrt(L)
        for frac in (0.55, 0.65, 0.35):                      # budget = frac * sig2 (< sig2 / sqrt(2): nothing may be cut)
            e = frac * sig2 * np.sqrt(2.) / nrm
            for is_eigh in (True, False):
                Zp = teneva.truncate(Y, e, is_eigh=is_eigh)
                Zs = teneva.truncate(Y, e, is_eigh=is_eigh, use_stab=True)
                err = np.linalg.norm(teneva.full(Zs) - F)
                ok_err = ok_err and err <= e * nrm * (1 + 1e-9)
                ok_rank = ok_rank and [G.shape[2] for G in Zs[:-1]] == [2, 2]
                ok_same = ok_same and teneva.ranks(Zs).tolist() == teneva.ranks(Zp).tolist()
        for frac in (1.3, 2.5):                              # budget above sig2: rank 1 on both bonds is admissible
            e = frac * sig2 * np.sqrt(2.) / nrm
            for is_eigh in (True, False):
                Zs = teneva.truncate(Y, e, is_eigh=is_eigh, use_stab=True)
                ok_rank = ok_rank and [G.shape[2] for G in Zs[:-1]] == [1, 1]
                ok_err = ok_err and np.linalg.norm(teneva.full(Zs) - F) <= e * nrm * (1 + 1e-9)
    ctx.claim('stabilised_error_within_budget', bool(ok_err))
    ctx.claim('stabilised_ranks_minimal', bool(ok_rank))
    ctx.claim('stabilised_ranks_equal_plain', bool(ok_same))


def h_concrete_add_many_numbers(ctx):
    """add_many on lists that mix TT-tensors and plain numbers, with and without a
    binding cap (real code: rounding of a sum with a constant part is not
    encodable): rank cap, shape, accumulated error budget."""
    ok_rank, ok_err = True, True
    Y = teneva.rand([4, 3, 4], 2, seed=1)
    Z = teneva.rand([4, 3, 4], 1, seed=2)
    C = teneva.const([4, 3, 4], 1.5)
    for lst, dense in [([Y, 2.5, Z], teneva.full(Y) + 2.5 + teneva.full(Z)), ([3., Y], 3. + teneva.full(Y)),
                       ([Y, C, -1.5], teneva.full(Y)), ([Y, 1, 2, Z, -3], teneva.full(Y) + teneva.full(Z))]:
        for cap in (1, 2, 3, 10 ** 6):
            for tf in (1, 2, 15):
                R = teneva.add_many(lst, e=1e-8, r=cap, trunc_freq=tf)
                ranks = [G.shape[2] for G in R[:-1]]
                ok_rank = ok_rank and all(q <= max(1, cap) for q in ranks) and [G.shape[1] for G in R] == [4, 3, 4]
                if cap == 10 ** 6:
                    ok_err = ok_err and np.linalg.norm(teneva.full(R) - dense) <= 1e-6 * max(1., np.linalg.norm(dense))
                    # no rank above the exact TT-ranks of the total
                    T = teneva.truncate(teneva.svd(dense, 1e-12), 1e-8)
                    ok_rank = ok_rank and all(a <= b for a, b in zip(ranks, [G.shape[2] for G in T[:-1]]))
    ctx.claim('rank_cap_and_shape', bool(ok_rank))
    ctx.claim('sum_within_budget', bool(ok_err))


def instances(tier):
    out = []
    quick = tier == 'quick'
    out.append({'func': 'h_concrete_add_many_numbers', 'params': {}, 'opts': {'concrete_only': True}})
    out.append({'func': 'h_concrete_wide_spectrum', 'params': {}, 'opts': {'concrete_only': True}})
    out.append({'func': 'h_concrete_stab_dense_last', 'params': {}, 'opts': {'concrete_only': True}})
    for tf, cap in [(2, 1), (1, 1), (2, 2)]:
        out.append({'func': 'h_add_many_cancel', 'params': {'trunc_freq': tf, 'cap': cap}})
    gen = [(2, 2, 2)] if quick else [(2, 2, 2), (2, 1, 2)]
    for (n1, r, n2) in gen:
        for is_eigh in (True, False):
            for use_stab in ((False,) if quick else (False, True)):
                for cap in (False, True):
                    out.append({'func': 'h_generic_d2', 'params': {
                        'n1': n1, 'r': r, 'n2': n2, 'is_eigh': is_eigh, 'use_stab': use_stab, 'with_cap': cap}})
    # bond rank 3 above the last mode size 2 (tall unfolding of the last core)
    for is_eigh in (True, False):
        out.append({'func': 'h_generic_d2', 'params': {'n1': 3, 'r': 3, 'n2': 2, 'is_eigh': is_eigh, 'use_stab': False,
                                                       'with_cap': False, 'fixed_q': True}})
        # three singular values, cap 2 (d = 2: the per-unfolding budget is the whole budget)
        out.append({'func': 'h_generic_d2', 'params': {'n1': 3, 'r': 3, 'n2': 3, 'is_eigh': is_eigh, 'use_stab': False,
                                                       'with_cap': 2, 'fixed_q': True}})
    qd = [(3, 2), (4, 2)] if quick else [(3, 2), (4, 2), (3, 3), (5, 2)]
    for d, n in qd:
        for is_eigh in (True, False):
            for use_stab in (False, True):
                for cap in (False, True):
                    if quick and d == 4 and use_stab:
                        continue
                    inst = {'func': 'h_quasi', 'params': {
                        'd': d, 'n': n, 'is_eigh': is_eigh, 'use_stab': use_stab, 'with_cap': cap}}
                    if quick and not is_eigh:
                        # LAPACK sign conventions fixed to +1 in the quick tier (thorough: symbolic signs)
                        inst['opts'] = {'symbolic_signs': False}
                    out.append(inst)
    # three singular values per unfolding with a symbolic cap (cap between the e-rank and the number of values)
    if quick:
        out.append({'func': 'h_quasi', 'params': {'d': 3, 'n': 3, 'is_eigh': False, 'use_stab': False, 'with_cap': True},
                    'opts': {'symbolic_signs': False}})
    for is_eigh in (True, False):
        out.append({'func': 'h_quasi', 'params': {'d': 3, 'n': 3, 'is_eigh': is_eigh, 'use_stab': False, 'with_cap': 2},
                    'opts': {'symbolic_signs': False}})
    # permuted bond gauge (non-symmetric square unfoldings) and a leading rank-1 bond
    for is_eigh in (True, False):
        inst = {'func': 'h_quasi', 'params': {'d': 3, 'n': 2, 'is_eigh': is_eigh, 'use_stab': False, 'with_cap': False,
                                               'shift': 1, 'lead': False}}
        inst2 = {'func': 'h_quasi', 'params': {'d': 2, 'n': 2, 'is_eigh': is_eigh, 'use_stab': False, 'with_cap': False,
                                                'shift': 0, 'lead': True}}
        inst3 = {'func': 'h_quasi', 'params': {'d': 3, 'n': 2, 'is_eigh': is_eigh, 'use_stab': True, 'with_cap': True,
                                                'shift': 1, 'lead': True}}
        for it in ((inst, inst2) if quick else (inst, inst2, inst3)):
            if not is_eigh:
                it['opts'] = {'symbolic_signs': False}
            out.append(it)
    # identically vanishing tensors: rank 1 is admissible on every bond
    for is_eigh, use_stab, which in [(True, False, 1), (True, True, 0), (False, False, 2), (True, False, None)]:
        out.append({'func': 'h_vanishing', 'params': {'n': 2, 'is_eigh': is_eigh, 'use_stab': use_stab, 'which': which},
                    'opts': {'symbolic_signs': False}})
    # interior mode of size 1 (one more truncation with the same spectrum)
    for is_eigh in (True, False):
        out.append({'func': 'h_quasi', 'params': {'d': 2, 'n': 3, 'is_eigh': is_eigh, 'use_stab': False, 'with_cap': False,
                                                   'dummy': True}, 'opts': {'symbolic_signs': False}})
    out.append({'func': 'h_quasi_outer', 'params': {'n': 2, 'is_eigh': True, 'use_stab': False}})
    out.append({'func': 'h_quasi_outer', 'params': {'n': 2, 'is_eigh': False, 'use_stab': False}, 'opts': {'symbolic_signs': False}})
    if not quick:
        out.append({'func': 'h_quasi_outer', 'params': {'n': 2, 'is_eigh': True, 'use_stab': True}})
        out.append({'func': 'h_quasi', 'params': {'d': 3, 'n': 3, 'is_eigh': True, 'use_stab': False, 'with_cap': True,
                                                   'shift': 1, 'lead': False}})
    for n, tf in ([(2, 1), (2, 15)] if quick else [(2, 1), (2, 15), (3, 1), (3, 2)]):
        out.append({'func': 'h_add_many', 'params': {'n': n, 'trunc_freq': tf}})
        out.append({'func': 'h_add_many', 'params': {'n': n, 'trunc_freq': tf, 'cap': 1}})
    return out


BOUNDS = {
    'quick': 'generic d=2 tensors of shape (2,2) rank 2 (Householder factors, symbolic spectrum incl. zero, e, cap), both '
             'decomposition modes, plain arithmetic; super-diagonal d=3 n=2 (both stabilisation settings) and d=4 n=2 (plain) '
             'with symbolic weights, e, cap; LAPACK signs symbolic in eigh mode, fixed in SVD mode; '
             'add_many on 2 disjoint rank-1 summands, trunc_freq in {1,15}',
    'thorough': 'adds stabilised generic d=2, rank 1, super-diagonal d=4 stabilised, d=3 n=3, d=5 n=2, symbolic LAPACK signs '
                'everywhere, add_many with 3 summands',
}
OUTSIDE = ('generic (non super-diagonal) tensors with d >= 3; rank-deficient first core in the generic chain (covered by '
           'super-diagonal family and C04/C11); "above the rounding floor" (exact arithmetic has no floor); sizes above the bounds')
ASSUMPTIONS = ['LAPACK contracts as in C03/C04', 'exact real arithmetic',
               'stabilised mode: floor(log2(v)) modelled by a positive scale E with E <= v < 2E (superset of powers of two)']
