"""C08 - maxvol / maxvol_rect return a dominant submatrix with an exact coefficient matrix."""
import itertools
import numpy as np
import teneva
from harness.common import *


def _plu(ctx, n, r, perm):
    """A := P L U, the output contract of scipy.linalg.lu (partial pivoting):
    L unit lower trapezoidal with |l| <= 1, U upper triangular, non-singular."""
    P = perm_matrix(ctx, perm)
    L = mat(ctx, 'l', n, r, lambda i, j: 1 if i == j else (0 if j > i else None))
    U = upper(ctx, 'u', r)
    for i in range(n):
        for j in range(min(i, r)):
            ctx.assume(ctx.le(L[i, j], 1))
            ctx.assume(ctx.ge(L[i, j], -1))
    for i in range(r):
        ctx.assume(ctx.not_(ctx.eq(U[i, i], 0)), 'A has full column rank (U non-singular)')
    A = P @ L @ U
    expect(ctx, 'lu', A, (P, L, U))
    return A


def h_maxvol(ctx, n, r, perm, k, forder=False):
    A = _plu(ctx, n, r, perm)
    if forder:
        # (a Fortran-ordered matrix, e.g. the transposed view of a C-ordered one)
        A = np.asfortranarray(A)
    e = ctx.real('e')
    ctx.assume(ctx.ge(e, 1), 'e >= 1')
    A0 = A.copy()
    with count_calls(np, 'outer') as cnt:
        I, B = teneva.maxvol(A, e, k)
    I = [int(i) for i in I]
    ctx.claim('rows_valid', len(I) == r and len(set(I)) == r and all(0 <= i < n for i in I))
    ctx.claim('shape_B', B.shape == (n, r))
    ctx.claim('A_eq_B_AI', ctx.all_eq(B @ A0[I, :], A0))
    ctx.claim('B_I_identity', ctx.all_eq(B[I, :], eye(ctx, r)))
    if cnt['n'] < k:
        # the loop left through its break: no entry of B exceeds e in modulus
        ctx.claim('dominant', ctx.all_([ctx.le(b, e) for b in B.reshape(-1)] +
                                       [ctx.ge(b, -e) for b in B.reshape(-1)]))
    ctx.claim('finite', finite(ctx, [B]))
    ctx.canary('canary_B', ctx.all_eq(B @ A0[I, :], A0 * 2))


def _exact_plu(rows):
    """Partial-pivoting LU of an integer matrix in exact rationals (first maximal
    pivot, like LAPACK): perm (row order), L, U as lists of Fractions."""
    from fractions import Fraction
    M = [[Fraction(v) for v in row] for row in rows]
    n, r = len(M), len(M[0])
    order = list(range(n))
    L = [[Fraction(0)] * r for _ in range(n)]
    for c in range(r):
        piv = max(range(c, n), key=lambda i: (abs(M[i][c]), -i))
        M[c], M[piv] = M[piv], M[c]
        L[c], L[piv] = L[piv], L[c]
        order[c], order[piv] = order[piv], order[c]
        L[c][c] = Fraction(1)
        for i in range(c + 1, n):
            f = M[i][c] / M[c][c]
            L[i][c] = f
            for j in range(c, r):
                M[i][j] -= f * M[c][j]
    U = [M[i][:r] for i in range(r)]
    return order, L, U


def h_maxvol_chain(ctx, rows, k):
    """A fixed integer matrix (times symbolic positive column scales) on which the
    row exchanges form a long chain: for e close to 1 more exchanges are needed
    than there are rows outside the submatrix.  Symbolic: e >= 1 (every number of
    exchanges up to the chain length is explored), the column scales."""
    n, r = len(rows), len(rows[0])
    order, Lq, Uq = _exact_plu(rows)
    c = vec(ctx, 'c', r)
    for v in c:
        ctx.assume(ctx.gt(v, 0))
    K = lambda q: ctx.const(q.numerator) / q.denominator if q.denominator != 1 else ctx.const(q.numerator)
    dt = c.dtype
    L = np.array([[K(v) for v in row] for row in Lq], dtype=dt)
    U = np.array([[K(Uq[i][j]) * c[j] for j in range(r)] for i in range(r)], dtype=dt)
    A = np.array([[ctx.const(rows[i][j]) * c[j] for j in range(r)] for i in range(n)], dtype=dt)
    # row order[j] of A is row j of L U
    Pm = np.array([[ctx.const(1 if order[j] == i else 0) for j in range(n)] for i in range(n)], dtype=dt)
    if is_sym(ctx):
        ctx.claim('harness_plu_consistent', ctx.all_eq(Pm @ L @ U, A))
    expect(ctx, 'lu', A, (Pm, L, U))
    e = ctx.real('e')
    ctx.assume(ctx.ge(e, 1), 'e >= 1')
    A0 = A.copy()
    with count_calls(np, 'outer') as cnt:
        I, B = teneva.maxvol(A, e, k)
    I = [int(i) for i in I]
    ctx.claim('rows_valid', len(I) == r and len(set(I)) == r and all(0 <= i < n for i in I))
    ctx.claim('A_eq_B_AI', ctx.all_eq(B @ A0[I, :], A0))
    ctx.claim('B_I_identity', ctx.all_eq(B[I, :], eye(ctx, r)))
    if cnt['n'] < k:
        ctx.claim('dominant', ctx.all_([ctx.le(b, e) for b in B.reshape(-1)] +
                                       [ctx.ge(b, -e) for b in B.reshape(-1)]))
    ctx.claim('finite', finite(ctx, [B]))


def h_maxvol_rect(ctx, n, r, perm, dr_min, dr_max, k0):
    A = _plu(ctx, n, r, perm)
    e = ctx.real('e')
    ctx.assume(ctx.ge(e, 1), 'e >= 1')
    A0 = A.copy()
    I, B = teneva.maxvol_rect(A, e, dr_min, dr_max, 1.05, k0)
    I = [int(i) for i in I]
    q = len(I)
    hi = min(n, r + dr_max) if dr_max is not None else n
    ctx.claim('rows_count', r + dr_min <= q <= hi)
    ctx.claim('rows_valid', len(set(I)) == q and all(0 <= i < n for i in I))
    ctx.claim('shape_B', B.shape == (n, q))
    ctx.claim('A_eq_B_AI', ctx.all_eq(B @ A0[I, :], A0))
    ctx.claim('B_I_identity', ctx.all_eq(B[I, :], eye(ctx, q)))
    if q < hi:
        ctx.claim('row_norms', ctx.all_([ctx.le(sumsq(B[i, :]), e * e) for i in range(n)]))
    ctx.claim('finite', finite(ctx, [B]))


def h_maxvol_rect_chain(ctx, rows, dr_min, dr_max, k0):
    """maxvol_rect on the fixed integer matrices of h_maxvol_chain (symbolic
    positive column scales) with an iteration limit k0 below the length of the
    exchange chain: the first stage stops at its limit with entries of B still
    above e0, so rows have to be added for loose accuracies e as well.
    Symbolic: e >= 1 and the column scales."""
    n, r = len(rows), len(rows[0])
    order, Lq, Uq = _exact_plu(rows)
    c = vec(ctx, 'c', r)
    for v in c:
        ctx.assume(ctx.gt(v, 0))
    K = lambda q: ctx.const(q.numerator) / q.denominator if q.denominator != 1 else ctx.const(q.numerator)
    dt = c.dtype
    L = np.array([[K(v) for v in row] for row in Lq], dtype=dt)
    U = np.array([[K(Uq[i][j]) * c[j] for j in range(r)] for i in range(r)], dtype=dt)
    A = np.array([[ctx.const(rows[i][j]) * c[j] for j in range(r)] for i in range(n)], dtype=dt)
    Pm = np.array([[ctx.const(1 if order[j] == i else 0) for j in range(n)] for i in range(n)], dtype=dt)
    expect(ctx, 'lu', A, (Pm, L, U))
    e = ctx.real('e')
    ctx.assume(ctx.ge(e, 1), 'e >= 1')
    A0 = A.copy()
    I, B = teneva.maxvol_rect(A, e, dr_min, dr_max, 1.05, k0)
    I = [int(i) for i in I]
    q = len(I)
    hi = min(n, r + dr_max)
    ctx.claim('rows_count', r + dr_min <= q <= hi)
    ctx.claim('rows_valid', len(set(I)) == q and all(0 <= i < n for i in I))
    ctx.claim('A_eq_B_AI', ctx.all_eq(B @ A0[I, :], A0))
    ctx.claim('B_I_identity', ctx.all_eq(B[I, :], eye(ctx, q)))
    if q < hi:
        ctx.claim('row_norms', ctx.all_([ctx.le(sumsq(B[i, :]), e * e) for i in range(n)]))
    ctx.claim('finite', finite(ctx, [B]))


def h_dispatch_rect(ctx, n, r, perm, dr_min, dr_max):
    """teneva._maxvol with requested growth bounds that exceed the rows available
    (n - r): the bounds are clamped, never rejected (this is how TT-cross calls it)."""
    A = _plu(ctx, n, r, perm)
    A0 = A.copy()
    tau = ctx.real('tau')
    tau0 = ctx.real('tau0')
    ctx.assume(ctx.ge(tau, 1))
    ctx.assume(ctx.ge(tau0, 1))
    I, B = teneva._maxvol(A, tau, dr_min, dr_max, tau0, 1)
    I = [int(i) for i in I]
    q = len(I)
    hi = min(n, r + dr_max)
    lo = min(r + dr_min, hi)
    ctx.claim('rows_count_clamped', lo <= q <= hi)
    if q < hi:
        # stopped before the upper limit: the accuracy of the rectangular stage is tau (not tau0)
        ctx.claim('row_norms_le_tau', ctx.all_([ctx.le(sumsq(B[i, :]), tau * tau) for i in range(n)]))
    ctx.claim('rows_valid', len(set(I)) == q and all(0 <= i < n for i in I))
    ctx.claim('A_eq_B_AI', ctx.all_eq(B @ A0[I, :], A0))
    ctx.claim('B_I_identity', ctx.all_eq(B[I, :], eye(ctx, q)))


def h_dispatch_square_stage(ctx, n, r, perm, k0):
    """teneva._maxvol without growth (dr_max = 0): the plain maxvol stage is run with
    the accuracy tau0 and the iteration limit k0 it was given (spy on teneva.maxvol)."""
    A = _plu(ctx, n, r, perm)
    A0 = A.copy()
    tau0 = ctx.real('tau0')
    ctx.assume(ctx.ge(tau0, 1))
    seen = []
    real = teneva.maxvol

    def spy(M, e=1.05, k=100):
        seen.append((e, k))
        return real(M, e, k)
    teneva.maxvol = spy
    try:
        I, B = teneva._maxvol(A, 1.1, 0, 0, tau0, k0)
    finally:
        teneva.maxvol = real
    I = [int(i) for i in I]
    ctx.claim('stage_called_once_with_given_limit', len(seen) == 1 and seen[0][1] == k0)
    ctx.claim('stage_called_with_given_accuracy', len(seen) == 1 and bool(ctx.eq(seen[0][0], tau0)))
    ctx.claim('rows_valid', len(I) == r and len(set(I)) == r and all(0 <= i < n for i in I))
    ctx.claim('A_eq_B_AI', ctx.all_eq(B @ A0[I, :], A0))


def h_maxvol_int(ctx, rows):
    """A matrix of integer dtype: same contract (the coefficient matrix is real valued)."""
    n, r = len(rows), len(rows[0])
    order, Lq, Uq = _exact_plu(rows)
    K = lambda q: ctx.const(q.numerator) / q.denominator if q.denominator != 1 else ctx.const(q.numerator)
    dt = object if is_sym(ctx) else float
    L = np.array([[K(v) for v in row] for row in Lq], dtype=dt)
    U = np.array([[K(v) for v in row] for row in Uq], dtype=dt)
    Pm = np.array([[ctx.const(1 if order[j] == i else 0) for j in range(n)] for i in range(n)], dtype=dt)
    A = np.array(rows, dtype=int)
    Ac = np.array([[ctx.const(int(v)) for v in row] for row in rows], dtype=dt)
    expect(ctx, 'lu', Ac, (Pm, L, U))
    e = ctx.real('e')
    ctx.assume(ctx.ge(e, 1))
    I, B = teneva.maxvol(A, e, 5)
    I = [int(i) for i in I]
    ctx.claim('rows_valid', len(I) == r and len(set(I)) == r and all(0 <= i < n for i in I))
    ctx.claim('A_eq_B_AI', ctx.all_eq(B @ Ac[I, :], Ac))
    ctx.claim('B_I_identity', ctx.all_eq(B[I, :], eye(ctx, r)))
    ctx.claim('input_untouched', bool(np.array_equal(A, np.array(rows))) and A.dtype.kind == 'i')


def h_reject(ctx, n, r):
    A = mat(ctx, 'a', n, r)
    ctx.raises(ValueError, 'wide_or_square_rejected', teneva.maxvol, A)


def h_reject_rect(ctx, n, r, dr_min, dr_max):
    A = mat(ctx, 'a', n, r)
    ctx.raises(ValueError, 'bad_dr_rejected', teneva.maxvol_rect, A, 1.1, dr_min, dr_max)


def h_dispatch(ctx, n, r):
    """teneva._maxvol for n <= r: identity selection."""
    A = mat(ctx, 'a', n, r)
    I, B = teneva._maxvol(A)
    ctx.claim('all_rows', [int(i) for i in I] == list(range(n)))
    ctx.claim('B_identity', ctx.all_eq(B, eye(ctx, n)))
    # the caller reorders / rescales what it got; the next call on a matrix of the same height is not affected
    if I.flags.writeable:
        I[...] = I[::-1].copy()
    if B.flags.writeable:
        B[...] = B * 3 + 1
    I2, B2 = teneva._maxvol(mat(ctx, 'c', n, r))
    ctx.claim('all_rows_second_call', [int(i) for i in I2] == list(range(n)))
    ctx.claim('B_identity_second_call', ctx.all_eq(B2, eye(ctx, n)))


def instances(tier):
    out = []
    def perms(n, r, full):
        ps = list(itertools.permutations(range(n)))
        return ps if full else [ps[0], ps[len(ps) // 2], ps[-1]]
    for (n, r, k, full) in ([(3, 2, 1, True), (3, 2, 2, False), (3, 1, 2, True), (4, 2, 1, False)] if tier == 'quick'
                            else [(3, 2, 1, True), (3, 2, 2, True), (3, 2, 3, False), (3, 1, 3, True),
                                  (4, 2, 1, True), (4, 3, 1, False), (5, 2, 1, False), (4, 1, 3, False)]):
        for p in perms(n, r, full):
            out.append({'func': 'h_maxvol', 'params': {'n': n, 'r': r, 'perm': list(p), 'k': k}})
    # Fortran-ordered input (LAPACK may work in such a buffer when an overwrite flag is set)
    out.append({'func': 'h_maxvol', 'params': {'n': 3, 'r': 2, 'perm': [1, 2, 0], 'k': 2, 'forder': True}})
    out.append({'func': 'h_maxvol', 'params': {'n': 4, 'r': 2, 'perm': [3, 0, 2, 1], 'k': 1, 'forder': True}})
    # chains of exchanges longer than the number of outside rows (found by search)
    for rows in ([[3, 2, -5], [-3, 6, -2], [-4, -3, -1], [3, -6, -5], [1, -6, 3], [3, 3, 6]],      # 4 exchanges, 3 outside rows
                 [[6, -1], [5, 1], [-5, 5], [-3, 5], [-3, -4]]):                                      # 3 exchanges, 3 outside rows
        out.append({'func': 'h_maxvol_chain', 'params': {'rows': rows, 'k': 8}})
    # exact ties: the largest |B| attained twice in anti-diagonal position; tied LU pivot columns
    for rows in ([[2, 0, -1], [-1, 1, -1], [-1, 1, -2], [0, -1, 1], [2, 1, -2], [2, 1, -2]],
                 [[-1, -1, 1], [2, -2, -2], [1, -1, 0], [-2, 2, 0], [2, 1, 1]],
                 [[1, 1, 1], [1, -1, 1], [-1, 1, 1], [1, 1, -1], [-1, -1, -1]]):
        out.append({'func': 'h_maxvol_chain', 'params': {'rows': rows, 'k': 8}})
    rect = [(3, 1, 0, 1, 1), (3, 1, 1, 2, 1), (3, 2, 0, 1, 1), (4, 2, 0, 1, 1), (3, 1, 0, 0, 1), (3, 2, 0, 0, 1),
            (3, 2, 0, None, 1), (3, 1, 1, None, 1)] if tier == 'quick' else \
        [(3, 1, 0, 1, 1), (3, 1, 1, 2, 1), (3, 1, 0, 2, 2), (3, 2, 0, 1, 1), (3, 2, 1, 1, 1), (4, 2, 0, 2, 1), (3, 1, 0, 0, 1), (4, 2, 0, 0, 1),
         (4, 2, 1, 2, 1), (4, 1, 0, 3, 1), (3, 1, 0, None, 1), (3, 2, 0, None, 1), (3, 1, 1, None, 1), (4, 2, 1, None, 1)]
    for (n, r, a, b, k0) in rect:
        for p in perms(n, r, False)[:2 if tier == 'quick' else 3]:
            out.append({'func': 'h_maxvol_rect', 'params': {'n': n, 'r': r, 'perm': list(p),
                                                            'dr_min': a, 'dr_max': b, 'k0': k0}})
    # first stage cut short by its iteration limit (chain matrices), loose and tight accuracies
    # (found by search: a row of norm > 1.05 sqrt(r) is left after the k0 exchanges)
    for rows, k0 in (([[4, -2], [4, -6], [1, 4], [4, 2]], 1),
                     ([[-4, -1, -3], [-3, -4, -5], [2, -1, 6], [4, 4, -2], [-3, 1, 3]], 1),
                     ([[6, -1], [5, 1], [-5, 5], [-3, 5], [-3, -4]], 1)):
        out.append({'func': 'h_maxvol_rect_chain', 'params': {'rows': rows, 'dr_min': 0, 'dr_max': 2, 'k0': k0}})
    for (n, r, a, b) in [(3, 2, 2, 2), (3, 1, 3, 5), (4, 2, 3, 3), (3, 2, 1, 1), (3, 1, 0, 2), (4, 2, 0, 1)]:
        out.append({'func': 'h_dispatch_rect', 'params': {'n': n, 'r': r, 'perm': list(range(n)), 'dr_min': a, 'dr_max': b}})
    for k0 in (7, 250):
        out.append({'func': 'h_dispatch_square_stage', 'params': {'n': 3, 'r': 2, 'perm': [1, 2, 0], 'k0': k0}})
    for rows in ([[3, 1], [1, 2], [2, -3]], [[1, 2], [3, 1], [-2, 5], [4, 4]]):
        out.append({'func': 'h_maxvol_int', 'params': {'rows': rows}})
    for n, r in [(2, 2), (2, 3), (1, 1)]:
        out.append({'func': 'h_reject', 'params': {'n': n, 'r': r}})
        out.append({'func': 'h_dispatch', 'params': {'n': n, 'r': r}})
    for n, r, a, b in [(3, 1, 2, 1), (3, 2, 2, 3), (3, 1, -1, 1), (3, 1, 1, 0), (4, 2, 2, 0)]:
        out.append({'func': 'h_reject_rect', 'params': {'n': n, 'r': r, 'dr_min': a, 'dr_max': b}})
    return out


BOUNDS = {
    'quick': 'maxvol: A = P L U with n x r in {3x2 (k<=2), 3x1 (k<=2), 4x2 (k=1)}, pivot permutations enumerated, two Fortran-ordered inputs; '
             'maxvol_rect: 3x1, 3x2, 4x2 with dr <= 2, k0 = 1; symbolic: every entry of L (|l|<=1), U (non-singular), e >= 1',
    'thorough': 'adds 3x2 k<=3, 4x2/4x3/5x2 with k=1 (inductive step: L arbitrary => arbitrary state after initialisation), '
                'maxvol_rect up to 4x2 with dr<=2 and dr_max=None',
}
OUTSIDE = ('n > 5, r > 3; iteration depth beyond the listed k except through the one-step inductive argument; '
           'the pivoting LAPACK actually performs (a superset, |l| <= 1, is explored); IEEE rounding')
ASSUMPTIONS = ['scipy.linalg.lu contract: A = P L U, L unit lower trapezoidal with |l_ij| <= 1, U upper triangular',
               'exact real arithmetic']
