"""C08 - maxvol / maxvol_rect return a dominant submatrix with an exact coefficient matrix."""
import itertools
import numpy as np
import teneva
from harness.common import *


def _plu(ctx, n, r, perm):
    """A := P L U, the output contract of scipy.linalg.lu (partial pivoting):
    L unit lower trapezoidal with |l| <= 1, U upper triangular, non-singular."""
    P = perm_matrix(ctx, perm)
    L = mat(ctx, 'l', n, r, lambda i, j: 1 if i == j else (0 if j > i else None))
    U = upper(ctx, 'u', r)
    for i in range(n):
        for j in range(min(i, r)):
            ctx.assume(ctx.le(L[i, j], 1))
            ctx.assume(ctx.ge(L[i, j], -1))
    for i in range(r):
        ctx.assume(ctx.not_(ctx.eq(U[i, i], 0)), 'A has full column rank (U non-singular)')
    A = P @ L @ U
    expect(ctx, 'lu', A, (P, L, U))
    return A


def h_maxvol(ctx, n, r, perm, k):
    A = _plu(ctx, n, r, perm)
    e = ctx.real('e')
    ctx.assume(ctx.ge(e, 1), 'e >= 1')
    A0 = A.copy()
    with count_calls(np, 'outer') as cnt:
        I, B = teneva.maxvol(A, e, k)
    I = [int(i) for i in I]
    ctx.claim('rows_valid', len(I) == r and len(set(I)) == r and all(0 <= i < n for i in I))
    ctx.claim('shape_B', B.shape == (n, r))
    ctx.claim('A_eq_B_AI', ctx.all_eq(B @ A0[I, :], A0))
    ctx.claim('B_I_identity', ctx.all_eq(B[I, :], eye(ctx, r)))
    if cnt['n'] < k:
        # the loop left through its break: no entry of B exceeds e in modulus
        ctx.claim('dominant', ctx.all_([ctx.le(b, e) for b in B.reshape(-1)] +
                                       [ctx.ge(b, -e) for b in B.reshape(-1)]))
    ctx.claim('finite', finite(ctx, [B]))
    ctx.canary('canary_B', ctx.all_eq(B @ A0[I, :], A0 * 2))


def h_maxvol_rect(ctx, n, r, perm, dr_min, dr_max, k0):
    A = _plu(ctx, n, r, perm)
    e = ctx.real('e')
    ctx.assume(ctx.ge(e, 1), 'e >= 1')
    A0 = A.copy()
    I, B = teneva.maxvol_rect(A, e, dr_min, dr_max, 1.05, k0)
    I = [int(i) for i in I]
    q = len(I)
    hi = min(n, r + dr_max) if dr_max is not None else n
    ctx.claim('rows_count', r + dr_min <= q <= hi)
    ctx.claim('rows_valid', len(set(I)) == q and all(0 <= i < n for i in I))
    ctx.claim('shape_B', B.shape == (n, q))
    ctx.claim('A_eq_B_AI', ctx.all_eq(B @ A0[I, :], A0))
    ctx.claim('B_I_identity', ctx.all_eq(B[I, :], eye(ctx, q)))
    if q < hi:
        ctx.claim('row_norms', ctx.all_([ctx.le(sumsq(B[i, :]), e * e) for i in range(n)]))
    ctx.claim('finite', finite(ctx, [B]))


def h_reject(ctx, n, r):
    A = mat(ctx, 'a', n, r)
    ctx.raises(ValueError, 'wide_or_square_rejected', teneva.maxvol, A)


def h_reject_rect(ctx, n, r, dr_min, dr_max):
    A = mat(ctx, 'a', n, r)
    ctx.raises(ValueError, 'bad_dr_rejected', teneva.maxvol_rect, A, 1.1, dr_min, dr_max)


def h_dispatch(ctx, n, r):
    """teneva._maxvol for n <= r: identity selection."""
    A = mat(ctx, 'a', n, r)
    I, B = teneva._maxvol(A)
    ctx.claim('all_rows', [int(i) for i in I] == list(range(n)))
    ctx.claim('B_identity', ctx.all_eq(B, eye(ctx, n)))


def instances(tier):
    out = []
    def perms(n, r, full):
        ps = list(itertools.permutations(range(n)))
        return ps if full else [ps[0], ps[len(ps) // 2], ps[-1]]
    for (n, r, k, full) in ([(3, 2, 1, True), (3, 2, 2, False), (3, 1, 2, True), (4, 2, 1, False)] if tier == 'quick'
                            else [(3, 2, 1, True), (3, 2, 2, True), (3, 2, 3, False), (3, 1, 3, True),
                                  (4, 2, 1, True), (4, 3, 1, False), (5, 2, 1, False), (4, 1, 3, False)]):
        for p in perms(n, r, full):
            out.append({'func': 'h_maxvol', 'params': {'n': n, 'r': r, 'perm': list(p), 'k': k}})
    rect = [(3, 1, 0, 1, 1), (3, 1, 1, 2, 1), (3, 2, 0, 1, 1), (4, 2, 0, 1, 1), (3, 1, 0, 0, 1), (3, 2, 0, 0, 1)] if tier == 'quick' else \
        [(3, 1, 0, 1, 1), (3, 1, 1, 2, 1), (3, 1, 0, 2, 2), (3, 2, 0, 1, 1), (3, 2, 1, 1, 1), (4, 2, 0, 2, 1), (3, 1, 0, 0, 1), (4, 2, 0, 0, 1),
         (4, 2, 1, 2, 1), (4, 1, 0, 3, 1), (3, 1, 0, None, 1)]
    for (n, r, a, b, k0) in rect:
        for p in perms(n, r, False)[:2 if tier == 'quick' else 3]:
            out.append({'func': 'h_maxvol_rect', 'params': {'n': n, 'r': r, 'perm': list(p),
                                                            'dr_min': a, 'dr_max': b, 'k0': k0}})
    for n, r in [(2, 2), (2, 3), (1, 1)]:
        out.append({'func': 'h_reject', 'params': {'n': n, 'r': r}})
        out.append({'func': 'h_dispatch', 'params': {'n': n, 'r': r}})
    for n, r, a, b in [(3, 1, 2, 1), (3, 2, 2, 3), (3, 1, -1, 1), (3, 1, 1, 0), (4, 2, 2, 0)]:
        out.append({'func': 'h_reject_rect', 'params': {'n': n, 'r': r, 'dr_min': a, 'dr_max': b}})
    return out


BOUNDS = {
    'quick': 'maxvol: A = P L U with n x r in {3x2 (k<=2), 3x1 (k<=2), 4x2 (k=1)}, pivot permutations enumerated; '
             'maxvol_rect: 3x1, 3x2, 4x2 with dr <= 2, k0 = 1; symbolic: every entry of L (|l|<=1), U (non-singular), e >= 1',
    'thorough': 'adds 3x2 k<=3, 4x2/4x3/5x2 with k=1 (inductive step: L arbitrary => arbitrary state after initialisation), '
                'maxvol_rect up to 4x2 with dr<=2 and dr_max=None',
}
OUTSIDE = ('n > 5, r > 3; iteration depth beyond the listed k except through the one-step inductive argument; '
           'the pivoting LAPACK actually performs (a superset, |l| <= 1, is explored); IEEE rounding')
ASSUMPTIONS = ['scipy.linalg.lu contract: A = P L U, L unit lower trapezoidal with |l_ij| <= 1, U upper triangular',
               'exact real arithmetic']
