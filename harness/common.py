"""Helpers shared by the harnesses (work in symbolic and concrete mode)."""
import itertools
import contextlib
import numpy as np


def is_sym(ctx):
    return ctx.mode == 'sym'


def mat(ctx, name, m, n, pattern=None):
    """m x n matrix of fresh reals; pattern(i, j) -> None (free) or a constant."""
    A = np.empty((m, n), dtype=object if is_sym(ctx) else float)
    for i in range(m):
        for j in range(n):
            c = pattern(i, j) if pattern else None
            A[i, j] = ctx.real(f'{name}_{i}_{j}') if c is None else ctx.const(c)
    return A


def vec(ctx, name, n):
    v = np.empty(n, dtype=object if is_sym(ctx) else float)
    for i in range(n):
        v[i] = ctx.real(f'{name}_{i}')
    return v


def cvec(ctx, values):
    """Vector of constants (exact in symbolic mode, float64 in concrete mode)."""
    v = np.empty(len(values), dtype=object if is_sym(ctx) else float)
    for i, x in enumerate(values):
        v[i] = ctx.const(x)
    return v


def eye(ctx, n, m=None):
    m = n if m is None else m
    E = np.empty((n, m), dtype=object if is_sym(ctx) else float)
    for i in range(n):
        for j in range(m):
            E[i, j] = ctx.const(1 if i == j else 0)
    return E


def zeros(ctx, shape):
    Z = np.empty(shape, dtype=object if is_sym(ctx) else float)
    Z.fill(ctx.const(0))
    return Z


def perm_matrix(ctx, perm):
    n = len(perm)
    P = np.empty((n, n), dtype=object if is_sym(ctx) else float)
    P.fill(ctx.const(0))
    for j, i in enumerate(perm):
        P[i, j] = ctx.const(1)
    return P


def expect(ctx, kind, A, factors):
    """Register a factorisation with the LAPACK stub (symbolic mode only)."""
    if is_sym(ctx):
        from symtt import stubs
        stubs.expect(kind, A, factors)


@contextlib.contextmanager
def count_calls(module, name):
    """Temporarily wrap module.name with a call counter (both modes)."""
    real = getattr(module, name)
    box = {'n': 0}

    def w(*a, **k):
        box['n'] += 1
        return real(*a, **k)
    setattr(module, name, w)
    try:
        yield box
    finally:
        setattr(module, name, real)


def householder_frame(ctx, name, m, k):
    """Generic element of the Stiefel manifold St(m, k) as a product of k
    Householder reflections applied to the first k columns of the identity.
    Entries are rational functions of the free parameters; Q^T Q = I holds
    identically (chart: v_j[j] = 1)."""
    Q = eye(ctx, m)
    for j in range(k):
        v = [ctx.const(0)] * j + [ctx.const(1)] + \
            [ctx.real(f'{name}_h{j}_{i}') for i in range(j + 1, m)]
        vv = sum(x * x for x in v)
        H = eye(ctx, m)
        for a in range(m):
            for b in range(m):
                H[a, b] = H[a, b] - (v[a] * v[b] * 2) / vv
        Q = Q @ H
    return Q[:, :k].copy()


def upper(ctx, name, k, n=None, unit=False):
    """k x n upper triangular (trapezoidal) matrix of fresh reals."""
    n = k if n is None else n
    return mat(ctx, name, k, n, lambda i, j: 0 if j < i else (1 if unit and i == j else None))


def sumsq(A):
    s = 0
    for x in np.asarray(A).reshape(-1):
        s = s + x * x
    return s


def finite(ctx, arrays):
    """All entries finite (trivially true for symbolic reals)."""
    if is_sym(ctx):
        return True
    return all(bool(np.all(np.isfinite(np.asarray(a, dtype=float)))) for a in arrays)
