"""C13 - TT-ANOVA cores encode exactly the additive model estimated from the data."""
import itertools
import numpy as np
import teneva
from harness.common import *
from symtt.ref import ref_full, ref_get, well_formed, multi_indices


def _mean(vals):
    s = 0
    for v in vals:
        s = s + v
    return s / len(vals)


def _model(I, y):
    """Independent recomputation of the first/second order ANOVA terms."""
    m, d = len(I), len(I[0])
    f0 = _mean(list(y))
    dom = [sorted(set(i[k] for i in I)) for k in range(d)]
    f1 = [{x: _mean([y[j] for j in range(m) if I[j][k] == x]) - f0 for x in dom[k]} for k in range(d)]
    f2 = {}
    for k1 in range(d - 1):
        for k2 in range(k1 + 1, d):
            for x1 in dom[k1]:
                for x2 in dom[k2]:
                    sel = [y[j] for j in range(m) if I[j][k1] == x1 and I[j][k2] == x2]
                    f2[k1, k2, x1, x2] = (_mean(sel) - f0 - f1[k1][x1] - f1[k2][x2]) if sel else 0
    return f0, dom, f1, f2


def h_order1(ctx, I, r, noise_mode, seed, int_y=False):
    """int_y: the training values as an array of integer dtype (counts); the model terms are real all the same."""
    I = [tuple(i) for i in I]
    m, d = len(I), len(I[0])
    y = vec(ctx, 'y', m)
    if int_y:
        vals = [(3 * j * j + 2 * j + 1) % 7 for j in range(m)]
        y_arg = np.array(vals, dtype=int)
        y = np.array([ctx.const(v) for v in vals], dtype=y.dtype)
    f0, dom, f1, f2 = _model(I, y)
    if int_y:
        y = y_arg
    if noise_mode == 'zero':
        noise = 0.
    else:
        noise = ctx.real('noise')
        ctx.assume(ctx.eq(noise, 0), 'symbolic noise scale evaluated at 0: structural entries must not depend on the draws')
    Y = teneva.anova(np.array(I), y, r=r, order=1, noise=noise, seed=seed)
    ns = [len(dm) for dm in dom]
    ctx.claim('well_formed_observed_mode_sizes', well_formed(Y, ns))
    ctx.claim('ranks_equal_r', all(G.shape[2] == r for G in Y[:-1]))
    ctx.claim('finite', finite(ctx, Y))
    F = ref_full(Y)
    ok = []
    for idx in multi_indices(ns):
        want = f0 + sum((f1[k][dom[k][idx[k]]] for k in range(d)), 0)
        ok.append(ctx.eq(F[idx], want))
    ctx.claim('tt_equals_additive_model', ctx.all_(ok))
    A = teneva.ANOVA(np.array(I), y, order=1, seed=seed)
    ctx.claim('constant_is_sample_mean', ctx.eq(A.f0, f0))
    ctx.claim('first_order_terms', ctx.all_([ctx.eq(A.f1[k][x], f1[k][x]) for k in range(d) for x in dom[k]]))
    i0 = [dom[k][0] for k in range(d)]
    ctx.claim('call_is_sum_of_terms', ctx.eq(A(np.array(i0)), f0 + sum((f1[k][i0[k]] for k in range(d)), 0)))
    # one model object asked for cores repeatedly (other rank, then again): same additive model every time
    for rep, rr in enumerate((r, r + 1, r)):
        Fr = ref_full(A.cores(rr, noise))
        ctx.claim('model_object_reusable', ctx.all_([ctx.eq(Fr[idx], f0 + sum((f1[k][dom[k][idx[k]]] for k in range(d)), 0))
                                                     for idx in multi_indices(ns)]))
    ctx.claim('terms_unchanged_by_cores', ctx.all_([ctx.eq(A.f1[k][x], f1[k][x]) for k in range(d) for x in dom[k]]))
    ctx.canary('canary', ctx.eq(F[(0,) * d], f0 + 1))


def h_order2_call(ctx, I):
    I = [tuple(i) for i in I]
    m, d = len(I), len(I[0])
    y = vec(ctx, 'y', m)
    f0, dom, f1, f2 = _model(I, y)
    A = teneva.ANOVA(np.array(I), y, order=2, seed=1)
    for idx in itertools.product(*dom):
        want = f0 + sum((f1[k][idx[k]] for k in range(d)), 0)
        for k1 in range(d - 1):
            for k2 in range(k1 + 1, d):
                want = want + f2[k1, k2, idx[k1], idx[k2]]
        ctx.claim('order2_call_is_sum_of_terms', ctx.eq(A(np.array(idx)), want))
    # on observed pair combinations the pair term is conditional mean minus lower orders
    num = 0
    for k1 in range(d - 1):
        for k2 in range(k1 + 1, d):
            for x1 in dom[k1]:
                for x2 in dom[k2]:
                    ctx.claim('pair_terms', ctx.eq(A.f2[num][x1, x2], f2[k1, k2, x1, x2]))
            num += 1


def h_concrete_order2_tt(ctx):
    """Order-2 TT-tensor on full grids, d = 2..9 (up to 36 pair summands, so that the periodic
    rounding inside add_many happens twice), for functions with pairwise
    interactions only: with a rank that is large enough the tensor reproduces the
    function (real code: the rounding inside add_many is not encodable for generic
    data)."""
    rng = np.random.default_rng(11)
    ok = True
    for ns in ([3, 2], [2, 3, 2], [2, 3, 2, 3], [3, 2, 2, 3], [2, 2, 2, 2, 2], [2] * 6, [2, 3, 2, 2, 2, 2, 2], [2] * 9):
        d = len(ns)
        I = np.array(list(itertools.product(*[range(k) for k in ns])))
        g = {(a, b): rng.normal(size=(ns[a], ns[b])) for a in range(d - 1) for b in range(a + 1, d)}
        y = np.array([sum(g[a, b][i[a], i[b]] for (a, b) in g) for i in I])
        Y = teneva.anova(I, y, r=(12 if d <= 6 else 40), order=2, noise=0., seed=1)
        F = teneva.full(Y)
        want = y.reshape(ns)
        ok = ok and F.shape == tuple(ns) and bool(np.linalg.norm(F - want) <= 1e-8 * np.linalg.norm(want))
    ctx.claim('order2_tt_reproduces_pairwise_functions_on_full_grids', bool(ok))


def h_additive_full_grid(ctx, ns, r):
    """An additive function sampled on the full grid is reproduced exactly."""
    d = len(ns)
    g = [vec(ctx, f'g{k}', ns[k]) for k in range(d)]
    I = multi_indices(ns)
    y = np.array([sum((g[k][i[k]] for k in range(d)), 0) for i in I], dtype=g[0].dtype)
    Y = teneva.anova(np.array(I), y, r=r, order=1, noise=0., seed=3)
    F = ref_full(Y)
    ctx.claim('additive_function_reproduced', ctx.all_([ctx.eq(F[i], y[j]) for j, i in enumerate(I)]))


def _cheb(ctx, x, n):
    """Independent Chebyshev basis T_0 .. T_{n-1} at the points x: array [n, len(x)]."""
    x = np.asarray(x)
    rows = [np.array([ctx.const(1) for _ in x], dtype=x.dtype), x.copy()]
    for k in range(2, n):
        rows.append(2 * x * rows[-1] - rows[-2])
    return np.array(rows[:n], dtype=x.dtype)


def h_func(ctx, m, n, d, zero_lamb=False):
    """Functional variant: the interpolant of the returned coefficient cores
    equals fitted constant + sum of fitted 1-D Chebyshev expansions; the fitted
    coefficients satisfy the ridge normal equations."""
    X = mat(ctx, 'x', m, d)
    for v in X.reshape(-1):
        ctx.assume(ctx.ge(v, -1))
        ctx.assume(ctx.le(v, 1))
    y = vec(ctx, 'y', m)
    if zero_lamb:
        lamb = 0.                     # regularisation switched off (plain least squares; m >= n, generic points)
    else:
        lamb = ctx.real('lamb')
        ctx.assume(ctx.gt(lamb, 0))
    A = teneva.ANOVA_func(X, y, n, -1., 1., lamb)
    cfs = A.coeffs
    y0 = _mean(list(y))
    # normal equations per dimension
    const = y0
    for k in range(d):
        T = _cheb(ctx, X[:, k], n).T                  # m x n
        c = None
        full_c = [None] * n
        # cfs[k+1] = coefficients 1..n-1; coefficient 0 went into the constant
        # recover it from the normal equations' first row is not possible -> check rows 1..n-1 and the constant separately
        ctx.claim('coeff_count', len(cfs[k + 1]) == n - 1)
    cores = A.cores(e=None)
    ctx.claim('well_formed', well_formed(cores, [n] * d))
    # the one-call wrapper: same regularisation, same (absent) rounding
    cw = teneva.anova_func(X, y, n, -1., 1., lamb, None)
    ctx.claim('wrapper_equals_class', well_formed(cw, [n] * d) and bool(ctx.all_eq(ref_full(cw), ref_full(cores))))
    xq = vec(ctx, 'q', d)
    for v in xq:
        ctx.assume(ctx.ge(v, -1))
        ctx.assume(ctx.le(v, 1))
    got = teneva.func_get(xq, cores, -1., 1.)
    want = cfs[0]
    for k in range(d):
        Tq = _cheb(ctx, xq[k:k + 1], n)[:, 0]
        for p in range(1, n):
            want = want + cfs[k + 1][p - 1] * Tq[p]
    ctx.claim('interpolant_is_constant_plus_1d_expansions', ctx.eq(got, want))
    # ridge optimality of the fitted 1-D models: (A^T A + lamb I) c = A^T (y - y0)
    c0_total = y0
    for k in range(d):
        T = _cheb(ctx, X[:, k], n).T
        rhs = T.T @ (y - y0)
        # full coefficient vector: c[0] is not stored separately; use the residual equations 1..n-1
        # with c[0] eliminated through equation 0
        M = T.T @ T
        for i in range(n):
            M[i, i] = M[i, i] + lamb
        # unknown c0: solve equation 0 for it
        s0 = rhs[0] - sum((M[0, p] * cfs[k + 1][p - 1] for p in range(1, n)), 0)
        c0 = s0 / M[0, 0]
        c0_total = c0_total + c0
        for i in range(1, n):
            lhs = M[i, 0] * c0 + sum((M[i, p] * cfs[k + 1][p - 1] for p in range(1, n)), 0)
            ctx.claim('ridge_normal_equations', ctx.eq(lhs, rhs[i]))
    ctx.claim('constant_collects_zeroth_coefficients', ctx.eq(cfs[0], c0_total))


def instances(tier):
    out = []
    quick = tier == 'quick'
    sets = {
        'full22': multi_indices([2, 2]),
        'sparse23': [(0, 0), (1, 2), (0, 1), (1, 1)],
        'dup': [(0, 0), (0, 0), (1, 1), (1, 0)],
        'full222': multi_indices([2, 2, 2]),
        'sparse3d': [(0, 0, 1), (1, 1, 0), (0, 1, 1), (1, 0, 0), (0, 0, 0)],
        'gap': [(0, 2), (2, 0), (0, 0), (2, 2)],       # observed domain {0,2}: mode size 2
        # labels from a large grid (position p of a mode belongs to the p-th smallest observed label)
        'large_labels': [(0, 8), (3, 0), (8, 3), (0, 0), (3, 8), (17, 9)],
    }
    use = ['full22', 'sparse23', 'dup', 'sparse3d', 'gap', 'large_labels'] if quick else list(sets)
    for name in use:
        for r in (2, 3):
            for nm in ('zero', 'symbolic'):
                if quick and r == 3 and nm == 'symbolic':
                    continue
                out.append({'func': 'h_order1', 'params': {'I': [list(i) for i in sets[name]], 'r': r,
                                                           'noise_mode': nm, 'seed': 5}})
    for name in ('sparse23', 'dup'):
        out.append({'func': 'h_order1', 'params': {'I': [list(i) for i in sets[name]], 'r': 2, 'noise_mode': 'zero', 'seed': 5,
                                                   'int_y': True},
                    # (all inputs are concrete integers: native float means against an exact reference would only
                    # compare rounding; the real code is run on them directly)
                    'opts': {'concrete_only': True}})
    for name in (['sparse23', 'dup', 'sparse3d'] if quick else ['sparse23', 'dup', 'sparse3d', 'full222']):
        out.append({'func': 'h_order2_call', 'params': {'I': [list(i) for i in sets[name]]}})
    for ns in ([[2, 2], [2, 3], [2, 2, 2]] if quick else [[2, 2], [2, 3], [2, 2, 2], [3, 3], [2, 3, 2]]):
        out.append({'func': 'h_additive_full_grid', 'params': {'ns': ns, 'r': 2}})
    out.append({'func': 'h_concrete_order2_tt', 'params': {}, 'opts': {'concrete_only': True}})
    for m, n, d in ([(2, 2, 2)] if quick else [(2, 2, 2), (3, 2, 2), (3, 3, 2), (3, 2, 3)]):
        # the ridge matrix A^T A + lamb I is positive definite for lamb > 0; its determinant is
        # treated as a generic (non-zero) divisor instead of asking the solver to prove definiteness
        out.append({'func': 'h_func', 'params': {'m': m, 'n': n, 'd': d}, 'opts': {'generic_divisors': True}})
    out.append({'func': 'h_func', 'params': {'m': 2, 'n': 2, 'd': 2, 'zero_lamb': True}, 'opts': {'generic_divisors': True}})
    return out


BOUNDS = {
    'quick': 'index version: d in {2,3}, mode sizes <= 3, sample sets: full grid, sparse, duplicates, gaps in the observed domain; '
             'ranks 2,3; noise 0 and symbolic noise scale; order-2 model terms and __call__; functional variant: m<=3 points, n=2, d=2 '
             'with symbolic points, values, regularisation (m=2 in the quick tier); concrete (real code) order-2 TT on full grids d=2..9',
    'thorough': 'adds full 2x2x2 grid order 2, 3x3 grids, functional variant n=3 / d=3',
}
OUTSIDE = ('order-2 TT values for generic data (SVD of derived pair matrices followed by rounding); ANOVA.sample, save/load; '
           'larger sample sets')
ASSUMPTIONS = ['exact real arithmetic', 'generator stub: normal draws are arbitrary reals times the requested scale',
               'ridge systems solved exactly (Cramer), determinant obligation discharged by the solver']
