"""C11 - degenerate but valid inputs yield well-formed finite tensors, never NaN."""
import itertools
import math
import numpy as np
import teneva
from harness.common import *
from harness.c04 import rF
from symtt.ref import ref_full, ref_get, well_formed, multi_indices


def quasi_nonneg(ctx, d, n):
    """Super-diagonal TT whose weights may be ZERO (w >= 0): the zero tensor,
    rank-deficient unfoldings and vanishing cores are all members."""
    Y = []
    for k in range(d):
        rl = 1 if k == 0 else n
        rr = 1 if k == d - 1 else n
        G = zeros(ctx, (rl, n, rr))
        w = vec(ctx, f'w{k}', n)
        for i in range(n):
            ctx.assume(ctx.ge(w[i], 0))
            ctx.assume(ctx.le(w[i], 2 ** 100))          # representable in float64 (replay)
            G[0 if k == 0 else i, i, 0 if k == d - 1 else i] = w[i]
        Y.append(G)
    return Y


def _finite_scalar(ctx, x):
    if is_sym(ctx):
        return True
    return bool(np.isfinite(float(x)))


def h_truncate(ctx, d, n, is_eigh, use_stab):
    Y = quasi_nonneg(ctx, d, n)
    e = ctx.real('e')
    ctx.assume(ctx.gt(e, 0))
    ctx.assume(ctx.lt(e, 1))
    Z = teneva.truncate(Y, e, use_stab=use_stab, is_eigh=is_eigh)
    ctx.claim('well_formed', well_formed(Z, [n] * d))
    ctx.claim('finite', finite(ctx, Z))
    ctx.claim('float_cores', all(G.dtype in (object, np.float64) for G in Z))


def h_orthogonalize(ctx, d, n, k, use_stab):
    Y = quasi_nonneg(ctx, d, n)
    res = teneva.orthogonalize(Y, k, use_stab=use_stab)
    Z = res[0] if use_stab else res
    ctx.claim('well_formed', well_formed(Z, [n] * d))
    ctx.claim('finite', finite(ctx, Z))


def h_svd(ctx, d, n):
    a = vec(ctx, 'a', n)
    for i in range(n):
        ctx.assume(ctx.ge(a[i], 0))
    Yf = zeros(ctx, (n,) * d)
    for i in range(n):
        Yf[(i,) * d] = a[i]
    e = ctx.real('e')
    ctx.assume(ctx.gt(e, 0))
    Z = teneva.svd(Yf, e)
    ctx.claim('well_formed', well_formed(Z, [n] * d))
    ctx.claim('finite', finite(ctx, Z))


def h_scalars(ctx, d, n):
    """norm / sum / mean / scalar product / accuracy of degenerate tensors."""
    Y = quasi_nonneg(ctx, d, n)
    Zr = [zeros(ctx, G.shape) for G in Y]                 # the exactly-zero tensor
    vals = [teneva.norm(Y), teneva.sum(Y), teneva.mean(Y), teneva.mul_scalar(Y, Zr), teneva.norm(Zr),
            teneva.erank(Y)]
    ctx.claim('finite_scalars', all(_finite_scalar(ctx, v) for v in vals))
    acc = teneva.accuracy(Y, Zr)                          # undefined relative accuracy
    ok = True
    if not is_sym(ctx):
        ok = math.isfinite(float(acc))                    # a sentinel or a saturation value, never NaN / inf
    ctx.claim('accuracy_not_nan', ok)
    acc0 = teneva.accuracy(Zr, Zr)
    if is_sym(ctx):
        c = acc0.const_value() if hasattr(acc0, 'const_value') else acc0
        ctx.claim('accuracy_of_zero_vs_zero_is_sentinel', c == -1)
    else:
        ctx.claim('accuracy_of_zero_vs_zero_is_sentinel', acc0 == -1)


def h_qtt(ctx, q, r):
    """tt_to_qtt on cores with non-negative weights on a generalised permutation
    pattern (zero cores and rank-deficient cores included)."""
    N = 1 << q
    G1 = zeros(ctx, (1, N, r))
    G2 = zeros(ctx, (r, N, 1))
    for a in range(r):
        w = ctx.real(f'u{a}')
        v = ctx.real(f'v{a}')
        ctx.assume(ctx.ge(w, 0))
        ctx.assume(ctx.ge(v, 0))
        G1[0, a % N, a] = w
        G2[a, (a + 1) % N, 0] = v
    Z = teneva.tt_to_qtt([G1, G2], 1e-10, 10)
    ctx.claim('well_formed', well_formed(Z, [2] * (2 * q)))
    ctx.claim('finite', finite(ctx, Z))


def h_als_small(ctx, dup):
    """ALS with repeated samples / constant data, rank 1: the 1x1 ridge systems
    are proved non-singular by the solver (lamb > 0), no genericity assumed."""
    I = [(0, 0), (1, 1), (0, 0)] if dup else [(0, 0), (1, 1)]
    Y0 = ctx.tt('g', [2, 2], 1)
    c = ctx.real('c')
    y = np.array([c] * len(I), dtype=object if is_sym(ctx) else float)      # constant data
    lamb = ctx.real('lamb')
    ctx.assume(ctx.gt(lamb, 0))
    saved = teneva.accuracy
    if is_sym(ctx):
        teneva.accuracy = lambda a, b: ctx.const(0)
    try:
        Y = teneva.als(np.array(I), y, Y0, nswp=1, e=None, lamb=lamb)
    finally:
        teneva.accuracy = saved
    ctx.claim('well_formed', well_formed(Y, [2, 2]))
    ctx.claim('finite', finite(ctx, Y))


# ---- degenerate runs of code the engine cannot encode: real code, fixed inputs ----
def _wf_finite(ctx, name, Y, n):
    ctx.claim(name + '_well_formed', well_formed(Y, n))
    ctx.claim(name + '_finite', all(bool(np.all(np.isfinite(G))) for G in Y))


def h_concrete(ctx, case):
    rng = np.random.default_rng(0)
    if case == 'cross_zero':
        Y = teneva.cross(lambda I: np.zeros(len(I)), teneva.rand([3, 4, 3], 2, seed=1), nswp=2)
        _wf_finite(ctx, case, Y, [3, 4, 3])
        Yt = teneva.truncate(Y, 1e-8)
        _wf_finite(ctx, case + '_truncated', Yt, [3, 4, 3])
    elif case == 'cross_const':
        Y = teneva.cross(lambda I: np.ones(len(I)) * 2.5, teneva.rand([3, 3, 3], 3, seed=2), nswp=2, dr_min=1, dr_max=1)
        _wf_finite(ctx, case, Y, [3, 3, 3])
    elif case == 'cross_d2_mode1':
        Y = teneva.cross(lambda I: I[:, 0] + 1., teneva.rand([4, 1], 1, seed=3), nswp=2)
        _wf_finite(ctx, case, Y, [4, 1])
    elif case == 'truncate_overranked':
        Y = teneva.rand([2, 3, 2], [1, 5, 7, 1], seed=4)          # ranks larger than a core can carry
        for ie in (True, False):
            for st in (True, False):
                Z = teneva.truncate(Y, 1e-10, use_stab=st, is_eigh=ie)
                _wf_finite(ctx, f'{case}_{ie}_{st}', Z, [2, 3, 2])
        Z = teneva.orthogonalize(Y, 1)
        _wf_finite(ctx, case + '_orth', Z, [2, 3, 2])
    elif case == 'truncate_zero_generic':
        Y = teneva.mul(teneva.rand([3, 4, 5], 3, seed=5), 0.)
        for ie in (True, False):
            Z = teneva.truncate(Y, 1e-10, is_eigh=ie)
            _wf_finite(ctx, f'{case}_{ie}', Z, [3, 4, 5])
        Z = teneva.add_many([Y, Y, Y], 1e-10)
        _wf_finite(ctx, case + '_add_many', Z, [3, 4, 5])
    elif case == 'rank_deficient_generic':
        A = teneva.rand([4, 4, 4], 2, seed=6)
        Y = teneva.add(A, A)                                       # unfoldings of rank 2 carried with rank 4
        for ie in (True, False):
            Z = teneva.truncate(Y, 1e-12, is_eigh=ie)
            _wf_finite(ctx, f'{case}_{ie}', Z, [4, 4, 4])
        Zq = teneva.tt_to_qtt(Y, 1e-12, 100)
        _wf_finite(ctx, case + '_qtt', Zq, [2] * 6)
        Zs = teneva.svd(teneva.full(Y), 1e-12)
        _wf_finite(ctx, case + '_svd', Zs, [4, 4, 4])
        Z0 = teneva.svd(np.zeros((3, 3, 3)), 1e-10)
        _wf_finite(ctx, case + '_svd_zero', Z0, [3, 3, 3])
    elif case == 'svd_leading_modes_of_size_one':
        # dense arrays (integer and float dtype) whose leading modes have size 1: every unfolding before
        # the last core is a single row; the cores are three-dimensional FLOAT arrays all the same
        ok = True
        for arr in (np.array([[3, 1, 2]]), np.array([[[4, 0, 5, 1]]]), np.array([[7]]), np.array([[[1], [2]]]),
                    np.array([[2.5, 1.]]), np.arange(6, dtype=np.int32).reshape(1, 2, 3), np.array([[1, 0, 1]], dtype=np.uint8)):
            Z = teneva.svd(arr, 1e-10)
            _wf_finite(ctx, case, Z, list(arr.shape))
            ok = ok and all(G.dtype.kind == 'f' and G.ndim == 3 for G in Z)
            ok = ok and bool(np.allclose(teneva.full(Z), arr.astype(float), atol=1e-12))
            W = [G.copy() for G in Z]
            W[-1] *= 0.5                       # (what a caller does next: scale the tensor in place)
            ok = ok and bool(np.allclose(teneva.full(W), 0.5 * arr.astype(float), atol=1e-12))
        ctx.claim(case + '_float_cores', bool(ok))
    elif case == 'cancelling_zero':
        # exactly zero tensors carried by cancelling non-zero cores (rank >= 2): the squared norm is rounding noise
        bad = 0
        for seed in range(12):
            for n, r in [([3, 4, 3], 2), ([4, 4], 3), ([2, 3, 2, 3], 2)]:
                Y = teneva.rand(n, r, seed=seed)
                Z = teneva.sub(Y, Y)
                v, p = teneva.norm(Z, use_stab=True)
                a1 = teneva.accuracy(Y, Y)
                a2 = teneva.accuracy(Z, Y)
                vals = [v, teneva.norm(Z), a1, a2, teneva.accuracy(Y, Z)]
                bad += sum(1 for x in vals if not np.isfinite(float(x)))
                T = teneva.truncate(Z, 1e-10)
                bad += sum(1 for G in T if not np.all(np.isfinite(G)))
        ctx.claim(case + '_finite', bad == 0)
    elif case == 'als_constant_repeated':
        I = np.array([[0, 0, 1], [1, 1, 0], [0, 0, 1], [1, 0, 0], [0, 1, 1], [0, 0, 1]])
        y = np.ones(len(I)) * 3.
        Y = teneva.als(I, y, teneva.rand([2, 2, 2], 2, seed=7), nswp=3)
        _wf_finite(ctx, case, Y, [2, 2, 2])
        Y = teneva.als(I, y * 0., teneva.rand([2, 2, 2], 2, seed=7), nswp=2)
        _wf_finite(ctx, case + '_zero', Y, [2, 2, 2])
    elif case == 'cross_growth_above_available_rows':
        # requested rank growth (dr_min >= 2) larger than the rows an almost square unfolding can still give
        T = teneva.rand([4, 4, 4], 2, seed=2)
        for dr in ((2, 2), (2, 3), (3, 3)):
            Y = teneva.cross(lambda I: teneva.get_many(T, I), teneva.rand([4, 4, 4], 1, seed=1), nswp=3, dr_min=dr[0], dr_max=dr[1])
            _wf_finite(ctx, case, Y, [4, 4, 4])
        Y = teneva.cross(lambda I: np.ones(len(I)), teneva.rand([2, 2, 2], 1, seed=1), nswp=2, dr_min=2, dr_max=2)
        _wf_finite(ctx, case + '_mode2', Y, [2, 2, 2])
    elif case == 'orthogonalize_zero_rank1':
        # exactly-zero cores next to rank-1 bonds, every pivot, single steps, adaptive ALS from a zero start
        bad = 0
        for Y in ([np.zeros((1, 3, 1)), np.zeros((1, 2, 1)), np.zeros((1, 3, 1))],
                  [np.ones((1, 3, 1)), np.zeros((1, 2, 1)), np.ones((1, 3, 1))],
                  [np.ones((1, 2, 2)), np.ones((2, 3, 1)), np.zeros((1, 2, 1))]):
            n = [G.shape[1] for G in Y]
            for k in range(len(Y)):
                for stab in (False, True):
                    res = teneva.orthogonalize(Y, k, use_stab=stab)
                    Z = res[0] if stab else res
                    bad += 0 if (well_formed(Z, n) and all(bool(np.all(np.isfinite(G))) for G in Z)) else 1
            for i in range(1, len(Y)):
                Z = teneva.orthogonalize_right(Y, i)
                bad += 0 if all(bool(np.all(np.isfinite(G))) for G in Z) else 1
            for i in range(len(Y) - 1):
                Z = teneva.orthogonalize_left(Y, i)
                bad += 0 if all(bool(np.all(np.isfinite(G))) for G in Z) else 1
        ctx.claim(case + '_well_formed_finite', bad == 0)
    elif case == 'cross_interrupted':
        # runs cut by the budget / by the objective returning None at every possible point, ranks growing
        bad = 0
        for n in ([3, 3, 3], [2, 4], [3, 1, 3]):
            T = teneva.rand(n, 2, seed=6)
            for m in range(2, 70, 3):
                try:
                    Y = teneva.cross(lambda I: teneva.get_many(T, I), teneva.rand(n, 1, seed=1), m=m, dr_min=1, dr_max=1)
                    bad += 0 if (well_formed(Y, n) and all(bool(np.all(np.isfinite(G))) for G in Y)) else 1
                except ValueError as e_:
                    bad += 1
            for kcall in range(1, 14):
                cnt = [0]

                def f(I):
                    cnt[0] += 1
                    return None if cnt[0] == kcall else np.ones(len(I))
                try:
                    Y = teneva.cross(f, teneva.rand(n, 1, seed=1), nswp=3, dr_min=1, dr_max=2)
                    bad += 0 if (well_formed(Y, n) and all(bool(np.all(np.isfinite(G))) for G in Y)) else 1
                except ValueError:
                    bad += 1
        ctx.claim(case + '_well_formed_finite', bad == 0)
    elif case == 'als_tiny_lamb':
        # regularisation lost in rounding (or switched off) with rank-deficient local problems
        I = np.array([[0, 0, 1], [1, 1, 0], [0, 0, 1], [1, 0, 0], [0, 1, 1], [0, 0, 1]])
        for lamb in (1e-30, 0.):
            for y in (np.ones(len(I)) * 3., np.zeros(len(I))):
                Y = teneva.als(I, y, teneva.rand([2, 2, 2], 2, seed=7), nswp=2, lamb=lamb)
                _wf_finite(ctx, case, Y, [2, 2, 2])
        Y = teneva.als(I, np.ones(len(I)), [G * 0. for G in teneva.rand([2, 2, 2], 2, seed=7)], nswp=1, lamb=1e-30)
        _wf_finite(ctx, case + '_zero_start', Y, [2, 2, 2])
    elif case == 'qtt_redundant_mode2':
        # mode size 2 (a single QTT core per mode) with ranks above what the unfoldings support
        X = teneva.rand([2, 2, 2], 2, seed=3)
        for T in (teneva.add(X, X), teneva.mul(X, 0.), [np.ones((1, 2, 7)), np.ones((7, 2, 1))],
                  teneva.rand([2, 2], 5, seed=4), teneva.rand([2, 4, 2], [1, 6, 6, 1], seed=5)):
            Q = teneva.tt_to_qtt(T)
            _wf_finite(ctx, case, Q, [2] * sum(int(np.log2(G.shape[1])) for G in T))
    elif case == 'anova_constant':
        I = teneva.sample_lhs([3, 3, 3], 12, seed=8)
        y = np.ones(len(I))
        for order in (1, 2):
            Y = teneva.anova(I, y, r=3, order=order, seed=9)
            _wf_finite(ctx, f'{case}_{order}', Y, [len(np.unique(I[:, k])) for k in range(3)])
        X = rng.uniform(-1, 1, size=(6, 2))
        A = teneva.anova_func(X, np.zeros(6), 3)
        _wf_finite(ctx, case + '_func_zero', A, [3, 3])
        A = teneva.anova_func(np.vstack([X[:1]] * 4), np.ones(4), 3)  # repeated samples
        _wf_finite(ctx, case + '_func_repeated', A, [3, 3])
    elif case == 'cheb_constant':
        Y = teneva.const([4, 5], 2.)
        A = teneva.func_int(Y)
        _wf_finite(ctx, case, A, [4, 5])
        A0 = teneva.func_int(teneva.mul(Y, 0.))
        _wf_finite(ctx, case + '_zero', A0, [4, 5])
        ctx.claim(case + '_value', abs(teneva.func_get(np.array([[0.3, -0.2]]), A, -1., 1.)[0] - 2.) < 1e-12)
        # coefficient tensors with a mode of size 1 (a function that is constant along that mode)
        A1 = [np.ones((1, 1, 2)) * 3., np.arange(1., 7.).reshape(2, 3, 1)]
        for m_ in (None, [1, 3], [1, 4], [2, 3]):
            Yg = teneva.func_gets(A1, m_)
            _wf_finite(ctx, case + '_mode1_gets', Yg, [G.shape[1] for G in Yg])
            ctx.claim(case + '_mode1_stats_finite', bool(np.isfinite(teneva.sum(Yg)) and np.isfinite(teneva.norm(Yg)) and np.isfinite(teneva.mean(Yg))))
        ctx.claim(case + '_mode1_value_finite', bool(np.all(np.isfinite(teneva.func_get(np.array([[0.3, -0.2]]), A1, -1., 1.)))))
        for Yd in (teneva.rand([3, 4], 2, seed=1), teneva.rand([1, 4], 1, seed=2), [np.zeros((1, 2, 1)), np.zeros((1, 2, 1))]):
            ctx.claim(case + '_erank_finite_2d', bool(np.isfinite(teneva.erank(Yd))))
    else:
        raise KeyError(case)


def instances(tier):
    out = []
    quick = tier == 'quick'
    S = {'symbolic_signs': False}
    for d, n in ([(2, 2), (3, 2)] if quick else [(2, 2), (3, 2), (3, 3), (4, 2)]):
        for is_eigh in (True, False):
            for st in (False, True):
                if quick and d == 3 and st:
                    continue
                out.append({'func': 'h_truncate', 'params': {'d': d, 'n': n, 'is_eigh': is_eigh, 'use_stab': st}, 'opts': S})
        for k in range(d):
            for st in ((False,) if quick else (False, True)):
                out.append({'func': 'h_orthogonalize', 'params': {'d': d, 'n': n, 'k': k, 'use_stab': st}, 'opts': S})
        out.append({'func': 'h_svd', 'params': {'d': d if d > 2 else 3, 'n': n}, 'opts': S})
    out.append({'func': 'h_scalars', 'params': {'d': 2, 'n': 2}, 'opts': S})
    for q, r in [(1, 1), (2, 1), (2, 2)]:
        out.append({'func': 'h_qtt', 'params': {'q': q, 'r': r}, 'opts': S})
    for dup in (False, True):
        out.append({'func': 'h_als_small', 'params': {'dup': dup}})
    for case in ['svd_leading_modes_of_size_one', 'cancelling_zero', 'cross_zero', 'cross_const', 'cross_d2_mode1', 'truncate_overranked', 'truncate_zero_generic',
                 'rank_deficient_generic', 'cross_growth_above_available_rows', 'cross_interrupted', 'orthogonalize_zero_rank1', 'als_constant_repeated', 'als_tiny_lamb', 'qtt_redundant_mode2', 'anova_constant',
                 'cheb_constant']:
        out.append({'func': 'h_concrete', 'params': {'case': case}, 'opts': {'concrete_only': True}})
    return out


BOUNDS = {
    'quick': 'symbolic: truncate (both modes, plain; stabilised for d=2), orthogonalize (all pivots), TT-SVD on super-diagonal families '
             'd in {2,3}, n=2 whose weights range over [0, inf) (zero tensor, vanishing cores, rank-deficient unfoldings); scalar '
             'functionals and accuracy against the zero tensor; tt_to_qtt on sparse cores q<=2 with weights >= 0; ALS rank 1 with '
             'constant / repeated data (ridge system proved non-singular).  Every division, root and logarithm executed generates the '
             'obligation "operand can be zero / negative?" which the solver must refute.  Plus 10 fixed degenerate inputs run on the '
             'real code only (cross, als, anova, generic over-ranked / zero tensors): code whose factorisations cannot be encoded',
    'thorough': 'adds n=3, d=4 and the stabilised variants everywhere',
}
OUTSIDE = ('NaN / inf produced by float overflow or cancellation; degenerate inputs of cross / als (rank > 1) / anova order 2 / generic '
           'rank-deficient tensors are exercised on the real code with fixed inputs only (concrete_only instances), not decided by the solver')
ASSUMPTIONS = ['exact real arithmetic', 'LAPACK closed forms for generalised permutation patterns (weights may vanish)']
