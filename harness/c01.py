"""C01 - TT evaluation and algebra agree elementwise with dense algebra."""
import itertools
import numpy as np
import teneva
from symtt.ref import ref_full, ref_get, multi_indices


def h_get_full(ctx, n, r):
    Y = ctx.tt('y', n, r)
    F = ref_full(Y)
    Z = teneva.full(Y)
    ctx.claim('full_shape', Z.shape == tuple(n))
    ctx.claim('full', ctx.all_eq(Z, F))
    I = multi_indices(n)
    for i in I:
        ctx.claim('get', ctx.eq(teneva.get(Y, list(i)), F[i]))
        ctx.claim('get_arr', ctx.eq(teneva.get(Y, np.array(i)), F[i]))
    B = I + I[:2]
    ym = teneva.get_many(Y, B)
    ctx.claim('get_many', ctx.all_eq(ym, np.array([F[i] for i in B])))
    ym2 = teneva.get(Y, np.array(B))
    ctx.claim('get_batch', ctx.all_eq(ym2, np.array([F[i] for i in B])))
    ctx.canary('canary_get', ctx.eq(teneva.get(Y, I[-1]), F[I[0]]))


def h_add_mul(ctx, n, r1, r2):
    Y1 = ctx.tt('a', n, r1)
    Y2 = ctx.tt('b', n, r2)
    F1, F2 = ref_full(Y1), ref_full(Y2)
    ctx.claim('add', ctx.all_eq(ref_full(teneva.add(Y1, Y2)), F1 + F2))
    ctx.claim('sub', ctx.all_eq(ref_full(teneva.sub(Y1, Y2)), F1 - F2))
    ctx.claim('mul', ctx.all_eq(ref_full(teneva.mul(Y1, Y2)), F1 * F2))
    ms = teneva.mul_scalar(Y1, Y2)
    ctx.claim('mul_scalar', ctx.eq(ms, (F1 * F2).sum()))
    ctx.canary('canary_add', ctx.all_eq(ref_full(teneva.add(Y1, Y2)), F1))


def instances(tier):
    out = []
    shapes = [([2, 2], 1), ([2, 3], 2), ([2, 1, 2], 2), ([2, 2, 2], [1, 2, 3, 1])]
    for n, r in shapes:
        out.append({'func': 'h_get_full', 'params': {'n': n, 'r': r}})
    for n, r1, r2 in [([2, 2], 1, 2), ([2, 2, 2], 2, [1, 1, 2, 1])]:
        out.append({'func': 'h_add_mul', 'params': {'n': n, 'r1': r1, 'r2': r2}})
    return out
