"""C01 - TT evaluation and algebra agree elementwise with dense tensor algebra."""
import itertools
import numpy as np
import teneva
from harness.common import *
from symtt.ref import ref_full, ref_get, multi_indices, well_formed


def h_get_full(ctx, n, r):
    Y = ctx.tt('y', n, r)
    Y0 = [G.copy() for G in Y]
    F = ref_full(Y)
    Z = teneva.full(Y)
    ctx.claim('full_shape', Z.shape == tuple(n))
    ctx.claim('full', ctx.all_eq(Z, F))
    I = multi_indices(n)
    for i in I:
        ctx.claim('get', ctx.eq(teneva.get(Y, list(i)), F[i]))
        ctx.claim('get_arr', ctx.eq(teneva.get(Y, np.array(i)), F[i]))
    B = I + I[:2]
    ym = teneva.get_many(Y, B)
    ctx.claim('get_many', ctx.all_eq(ym, np.array([F[i] for i in B])))
    ym2 = teneva.get(Y, np.array(B))
    ctx.claim('get_batch', ctx.all_eq(ym2, np.array([F[i] for i in B])))
    ym3 = teneva.get_many(Y, np.array(B))
    ctx.claim('get_many_array', ctx.all_eq(ym3, ym))
    # negative positions count from the end, for single and batched access alike
    neg = [tuple(-1 - (k % n[k]) for k in range(len(n))), tuple(-1 for _ in n)]
    ctx.claim('get_negative_index', ctx.all_([ctx.eq(teneva.get(Y, list(i)), F[i]) for i in neg]))
    ctx.claim('get_many_negative_index', ctx.all_eq(teneva.get_many(Y, [list(i) for i in neg]),
                                                    np.array([F[i] for i in neg])))
    ctx.claim('sum', ctx.eq(teneva.sum(Y), F.sum()))
    ctx.claim('mean', ctx.eq(teneva.mean(Y) * int(np.prod(n)), F.sum()))
    ctx.claim('shape', list(teneva.shape(Y)) == list(n))
    ctx.claim('ranks', list(teneva.ranks(Y)) == [1] + [G.shape[2] for G in Y])
    ctx.claim('size', int(teneva.size(Y)) == sum(G.size for G in Y))
    C = teneva.copy(Y)
    ctx.claim('copy_equal_not_same', all(bool(ctx.all_eq(a, b)) and a is not b for a, b in zip(C, Y)))
    ctx.claim('argument_untouched', all(bool(ctx.all_eq(a, b)) for a, b in zip(Y, Y0)))
    ctx.canary('canary_get', ctx.eq(teneva.get(Y, I[-1]), F[I[0]] + 1))


def h_add_mul(ctx, n, r1, r2):
    Y1 = ctx.tt('a', n, r1)
    Y2 = ctx.tt('b', n, r2)
    S1 = [G.copy() for G in Y1]
    S2 = [G.copy() for G in Y2]
    F1, F2 = ref_full(Y1), ref_full(Y2)
    ctx.claim('add', ctx.all_eq(ref_full(teneva.add(Y1, Y2)), F1 + F2))
    ctx.claim('sub', ctx.all_eq(ref_full(teneva.sub(Y1, Y2)), F1 - F2))
    ctx.claim('mul', ctx.all_eq(ref_full(teneva.mul(Y1, Y2)), F1 * F2))
    ms = teneva.mul_scalar(Y1, Y2)
    ctx.claim('mul_scalar', ctx.eq(ms, (F1 * F2).sum()))
    ctx.claim('operands_untouched', all(bool(ctx.all_eq(a, b)) for a, b in zip(Y1 + Y2, S1 + S2)))
    # second use of the same operands (multi-step sequences must see the same tensors)
    ctx.claim('sub_twice', ctx.all_eq(ref_full(teneva.sub(Y1, Y2)), F1 - F2))
    ctx.claim('add_after_sub', ctx.all_eq(ref_full(teneva.add(teneva.sub(Y1, Y2), Y2)), F1))
    ctx.canary('canary_add', ctx.all_eq(ref_full(teneva.add(Y1, Y2)), F1))


def h_norm(ctx, n, r):
    Y = ctx.tt('y', n, r)
    F = ref_full(Y)
    nr = teneva.norm(Y)
    ctx.claim('norm_squared', ctx.eq_nf(nr * nr, (F * F).sum()))
    ctx.claim('norm_nonnegative', ctx.ge(nr, 0))


def h_numbers(ctx, n, r):
    """Number operands (symbolic reals) on either side, and number-number."""
    Y = ctx.tt('y', n, r)
    F = ref_full(Y)
    c = ctx.real('c')
    k = ctx.real('k')
    ctx.claim('add_tensor_number', ctx.all_eq(ref_full(teneva.add(Y, c)), F + c))
    ctx.claim('add_number_tensor', ctx.all_eq(ref_full(teneva.add(c, Y)), F + c))
    ctx.claim('sub_tensor_number', ctx.all_eq(ref_full(teneva.sub(Y, c)), F - c))
    ctx.claim('sub_number_tensor', ctx.all_eq(ref_full(teneva.sub(c, Y)), c - F))
    ctx.claim('mul_tensor_number', ctx.all_eq(ref_full(teneva.mul(Y, c)), F * c))
    ctx.claim('mul_number_tensor', ctx.all_eq(ref_full(teneva.mul(c, Y)), F * c))
    ctx.claim('add_numbers', ctx.eq(teneva.add(c, k), c + k))
    ctx.claim('sub_numbers', ctx.eq(teneva.sub(c, k), c - k))
    ctx.claim('mul_numbers', ctx.eq(teneva.mul(c, k), c * k))
    ctx.claim('copy_number', teneva.copy(None) is None)


def h_outer(ctx, n1, r1, n2, r2):
    Y1 = ctx.tt('a', n1, r1)
    Y2 = ctx.tt('b', n2, r2)
    F1, F2 = ref_full(Y1), ref_full(Y2)
    want = np.multiply.outer(F1, F2)
    Z = teneva.outer(Y1, Y2)
    ctx.claim('outer', ctx.all_eq(ref_full(Z), want))
    ctx.claim('outer_new_cores', all(z is not g for z in Z for g in Y1 + Y2))
    Zm = teneva.outer_many([Y1, Y2, Y1])
    ctx.claim('outer_many', ctx.all_eq(ref_full(Zm), np.multiply.outer(want, F1)))
    ctx.claim('outer_many_empty', teneva.outer_many([]) is None)


def h_mean_weighted(ctx, n, r):
    Y = ctx.tt('y', n, r)
    F = ref_full(Y)
    P = [vec(ctx, f'p{k}', n[k]) for k in range(len(n))]
    want = 0
    for idx in multi_indices(n):
        w = F[idx]
        for k, i in enumerate(idx):
            w = w * P[k][i]
        want = want + w
    ctx.claim('weighted_mean', ctx.eq(teneva.mean(Y, P), want))
    ctx.claim('unnormed_mean_is_sum', ctx.eq(teneva.mean(Y, norm=False), F.sum()))


def _dense_interface(F, n, P, idx, k, ltr):
    """Independent dense definition of the interface vectors is rank dependent;
    we instead check the scalar end of the chain, which is rank free."""
    raise NotImplementedError


def h_interface(ctx, n, r, pmode, with_i, norm):
    """Interface vectors: phi[0] (right-to-left) and phi[-1] (left-to-right) are
    the full weighted contraction; inner vectors are checked through the
    defining recursion written with explicit loops."""
    d = len(n)
    Y = ctx.tt('y', n, r)
    F = ref_full(Y)
    if pmode == 'none':
        P = None
    elif pmode == 'common':
        P = vec(ctx, 'p', n[0])
    else:
        P = [vec(ctx, f'p{k}', n[k]) for k in range(d)]
    idx = [(d - 1 - k) % n[k] for k in range(d)] if with_i else None

    def weight(k, j):
        if P is None:
            return 1
        return P[j] if pmode == 'common' else P[k][j]

    def slice_(k):
        # matrix M_k = sum_j w(k, j) G_k[:, j, :]  or the selected slice
        G = Y[k]
        M = zeros(ctx, (G.shape[0], G.shape[2]))
        js = range(n[k]) if idx is None else [idx[k]]
        for j in js:
            M = M + G[:, j, :] * weight(k, j)
        return M

    nrm = {'none': None, 'natural': 'natural', 'linalg': 'linalg', 'l': 'l', 'n': 'n'}[norm]   # (documented short forms)
    for ltr in (False, True):
        phi = teneva.interface(Y, P, idx, nrm, ltr)
        ctx.claim('length', len(phi) == d + 1)
        if nrm is None:
            # explicit recursion
            if not ltr:
                v = np.array([ctx.const(1)], dtype=F.dtype)
                for k in range(d - 1, -1, -1):
                    v = slice_(k) @ v
                    ctx.claim('recursion_rtl', ctx.all_eq(phi[k], v))
            else:
                v = np.array([ctx.const(1)], dtype=F.dtype)
                for k in range(d):
                    v = slice_(k).T @ v
                    ctx.claim('recursion_ltr', ctx.all_eq(phi[k + 1], v))
            # scalar end equals the dense weighted contraction
            want = 0
            for mi in multi_indices(n):
                if idx is not None and list(mi) != list(idx):
                    continue
                w = F[mi]
                for k, j in enumerate(mi):
                    w = w * weight(k, j)
                want = want + w
            end = phi[0] if not ltr else phi[-1]
            ctx.claim('dense_contraction', ctx.eq(end[0], want))
        elif nrm in ('natural', 'n'):
            phi0 = teneva.interface(Y, P, idx, None, ltr)
            # natural norm: each step divides by the mode size
            seq = range(d - 1, -1, -1) if not ltr else range(d)
            acc = 1
            for c, k in enumerate(seq):
                kk = k if not ltr else k + 1
                src = (n[::-1] if ltr else n)
                acc = acc * (n[k] if not ltr else n[d - 1 - (d - 1 - k)])
                ctx.claim('natural_norm_scaling', ctx.all_eq(phi[kk] * acc, phi0[kk]))
        else:
            for k in range(d + 1):
                if 0 < k < d or (k == 0 and not ltr) or (k == d and ltr):
                    ctx.claim('linalg_unit_norm', ctx.eq(sumsq(phi[k]), 1))


def h_get_and_grad(ctx, n, r):
    Y = ctx.tt('y', n, r)
    F = ref_full(Y)
    d = len(n)
    # (the last two address elements from the end, which get / get_many / interface accept as well)
    for idx in [tuple(k % n[k] for k in range(d)), tuple((n[k] - 1) for k in range(d)),
                tuple(-1 - (k % n[k]) for k in range(d)), tuple(-1 if k % 2 else 0 for k in range(d))]:
        val, grad = teneva.get_and_grad(Y, list(idx))
        ctx.claim('value', ctx.eq(val, F[idx]))
        ctx.claim('grad_shapes', all(g.shape == G.shape for g, G in zip(grad, Y)))
        if is_sym(ctx):
            # derivative of REF with respect to every core entry
            from symtt.sym import Sym
            from symtt.poly import Poly
            ok = []
            for k in range(d):
                for pos in np.ndindex(*Y[k].shape):
                    var = Y[k][pos]
                    (v,) = var.n.vars()
                    dF = _poly_diff(F[idx], v)
                    ok.append(ctx.eq(grad[k][pos], dF))
            ctx.claim('gradient_is_derivative', ctx.all_(ok))
        else:
            h = 1e-6
            ok = True
            for k in range(d):
                for pos in np.ndindex(*Y[k].shape):
                    Yp = [G.copy() for G in Y]
                    Yp[k][pos] += h
                    num = (teneva.get(Yp, list(idx)) - F[idx]) / h
                    ok = ok and abs(num - grad[k][pos]) <= 1e-4 * (1 + abs(num))
            ctx.claim('gradient_is_derivative', ok)


def _poly_diff(s, v):
    from symtt.sym import Sym
    from symtt.poly import Poly
    t = {}
    for m, c in s.n.t.items():
        dm = dict(m)
        e = dm.get(v, 0)
        if not e:
            continue
        if e == 1:
            del dm[v]
        else:
            dm[v] = e - 1
        mm = tuple(sorted(dm.items()))
        t[mm] = t.get(mm, 0) + c * e
    return Sym(Poly({m: c for m, c in t.items() if c}))


def h_accuracy_on_data(ctx, n, r, m):
    Y = ctx.tt('y', n, r)
    F = ref_full(Y)
    I = multi_indices(n)[:m]
    if m >= 3:
        I = I[:m - 1] + [I[0]]             # a repeated multi-index (measured twice, different values)
    yd = vec(ctx, 'd', m)
    ctx.assume(ctx.gt(yd[0], 0))
    acc = teneva.accuracy_on_data(Y, np.array(I), yd)
    diff = sum(((F[i] - yd[j]) * (F[i] - yd[j]) for j, i in enumerate(I)), 0)
    ctx.claim('accuracy_on_data', ctx.eq(acc * acc * sumsq(yd), diff))
    ctx.claim('no_data_sentinel', teneva.accuracy_on_data(Y, None, None) == -1)


def h_erank(ctx, n, r):
    Y = ctx.tt('y', n, r)
    d = len(n)
    er = teneva.erank(Y)
    rk = [1] + [G.shape[2] for G in Y]
    if d == 2:
        ctx.claim('erank_d2', er == rk[1])
    else:
        # defining equation: n_1 r + sum_{a=2}^{d-1} n_a r^2 + n_d r = number of parameters
        lhs = er * n[0] + er * er * sum(n[1:d - 1]) + er * n[d - 1]
        ctx.claim('erank_defining_equation', ctx.eq(lhs, sum(G.size for G in Y)))
        ctx.claim('erank_positive', ctx.gt(er, 0))


def h_trees(ctx, n, depth):
    """All expression trees of the given depth over {add, sub, mul} with tensor
    and number leaves and copy, against the dense expression."""
    A = ctx.tt('a', n, 2)
    B = ctx.tt('b', n, 1)
    c = ctx.real('c')
    FA, FB = ref_full(A), ref_full(B)
    leaves = [('A', A, FA), ('B', B, FB), ('c', c, c), ('copyA', teneva.copy(A), FA)]
    ops = [('add', teneva.add, lambda x, y: x + y), ('sub', teneva.sub, lambda x, y: x - y),
           ('mul', teneva.mul, lambda x, y: x * y)]
    level = leaves
    for _ in range(depth - 1):
        nxt = []
        for (n1, t1, f1), (n2, t2, f2) in itertools.product(level[:3], leaves[:3]):
            for on, op, dn in ops[:2]:
                nxt.append((f'{on}({n1},{n2})', op(t1, t2), dn(f1, f2)))
        level = nxt
    cnt = 0
    for (n1, t1, f1), (n2, t2, f2) in itertools.product(level, leaves):
        for on, op, dn in ops:
            z = op(t1, t2)
            want = dn(f1, f2)
            if isinstance(z, list):
                ctx.claim('tree', ctx.all_eq(ref_full(z), want), detail=f'{on}({n1},{n2})')
            else:
                ctx.claim('tree', ctx.eq(z, want), detail=f'{on}({n1},{n2})')
            cnt += 1
    ctx.claim('leaves_untouched', bool(ctx.all_eq(ref_full(A), FA)) and bool(ctx.all_eq(ref_full(B), FB)))


def h_int_dtype_cores(ctx, d):
    """Hand-written cores of integer dtype as the first / second operand, a float
    tensor or a number as the other one: the result is the real-valued sum /
    difference / product (no value is cast to the integer dtype)."""
    n = [2] * d
    rk = [1] + [2] * (d - 1) + [1]
    Yi = [np.arange(1, 1 + rk[k] * 2 * rk[k + 1], dtype=int).reshape(rk[k], 2, rk[k + 1]) % 5 - 2 for k in range(d)]
    Z = ctx.tt('z', n, 1)
    Fi = ref_full([np.array([[[ctx.const(int(v)) for v in row] for row in blk] for blk in G], dtype=Z[0].dtype) for G in Yi])
    Fz = ref_full(Z)
    half = ctx.real('c')                  # number operand (symbolic real)
    ctx.claim('int_plus_float', ctx.all_eq(ref_full(teneva.add(Yi, Z)), Fi + Fz))
    ctx.claim('float_plus_int', ctx.all_eq(ref_full(teneva.add(Z, Yi)), Fi + Fz))
    ctx.claim('int_minus_float', ctx.all_eq(ref_full(teneva.sub(Yi, Z)), Fi - Fz))
    ctx.claim('int_times_float', ctx.all_eq(ref_full(teneva.mul(Yi, Z)), Fi * Fz))
    ctx.claim('int_plus_number', ctx.all_eq(ref_full(teneva.add(Yi, half)), Fi + half))
    ctx.claim('int_minus_number', ctx.all_eq(ref_full(teneva.sub(Yi, half)), Fi - half))
    ctx.claim('number_minus_int', ctx.all_eq(ref_full(teneva.sub(half, Yi)), half - Fi))
    ctx.claim('float_minus_int', ctx.all_eq(ref_full(teneva.sub(Z, Yi)), Fz - Fi))
    ctx.claim('int_times_number', ctx.all_eq(ref_full(teneva.mul(Yi, half)), Fi * half))
    ctx.claim('number_times_int', ctx.all_eq(ref_full(teneva.mul(half, Yi)), Fi * half))
    ctx.claim('int_scalar_product', ctx.eq(teneva.mul_scalar(Yi, Z), (Fi * Fz).sum()))
    ctx.claim('int_sum', ctx.eq(teneva.sum(Yi), Fi.sum()))


def h_integer_exact(ctx, n, r):
    """Bit-for-bit on small integers: with integer leaves no division, root or
    transcendental is executed by get/full/sum/add/sub/mul/outer/mul_scalar, so
    every intermediate is an integer polynomial of the leaves; the bound B with
    (sum of |coefficients|) * B^degree < 2^53 makes float64 evaluation exact."""
    Y1 = ctx.tt('a', n, r)
    Y2 = ctx.tt('b', n, r)
    outs = [teneva.full(Y1), ref_full(teneva.add(Y1, Y2)), ref_full(teneva.sub(Y1, Y2)),
            ref_full(teneva.mul(Y1, Y2)), np.array([teneva.mul_scalar(Y1, Y2)]), np.array([teneva.sum(Y1)]),
            np.array([teneva.get(Y1, [0] * len(n))]), ref_full(teneva.outer(Y1, Y2))]
    if is_sym(ctx):
        worst = 0
        integral = True
        for A in outs:
            for x in np.asarray(A, dtype=object).reshape(-1):
                if x.d:
                    integral = False
                deg = x.n.total_degree()
                l1 = sum(abs(c) for c in x.n.t.values())
                integral = integral and all(isinstance(c, int) for c in x.n.t.values())
                # largest B with l1 * B^deg < 2^53
                B = int((2 ** 53 / max(l1, 1)) ** (1.0 / max(deg, 1)))
                worst = B if not worst else min(worst, B)
        ctx.claim('integer_polynomials_only', integral)
        ctx.note(f'integer mode {n} r={r}: exact in float64 for |entries| <= {worst}')
        ctx.claim('exactness_bound_at_least_16', worst >= 16)
    else:
        ctx.claim('integer_polynomials_only', True)


OPTS = {'raw': True}


def instances(tier):
    out = []
    for d in (2, 3):
        out.append({'func': 'h_int_dtype_cores', 'params': {'d': d}})
    quick = tier == 'quick'
    shapes = [([2, 2], 1), ([2, 3], 2), ([2, 1, 2], 2), ([2, 2, 2], [1, 2, 3, 1]), ([1, 2], 3)]
    if not quick:
        shapes += [([3, 2, 2], 3), ([2, 2, 2, 2], 2), ([3, 3], 3), ([2, 3, 1, 2], [1, 2, 3, 2, 1])]
    for n, r in shapes:
        out.append({'func': 'h_get_full', 'params': {'n': n, 'r': r}})
        out.append({'func': 'h_erank', 'params': {'n': n, 'r': r}, 'opts': {'raw': False}})
    # unequal first / last mode sizes (the boundary terms of the defining equation differ)
    for n, r in [([3, 2, 2], 2), ([1, 2, 3], [1, 1, 2, 1]), ([2, 2, 1, 3], 2)]:
        out.append({'func': 'h_erank', 'params': {'n': n, 'r': r}, 'opts': {'raw': False}})
    # (the last two: rank profiles that cross along the chain, so that neither operand has the larger core everywhere)
    pairs = [([2, 2], 1, 2), ([2, 2, 2], 2, [1, 1, 2, 1]), ([1, 2], 3, 1),
             ([1, 1, 1], [1, 2, 3, 1], [1, 3, 2, 1]), ([2, 1, 1], [1, 2, 2, 1], [1, 1, 3, 1])]
    if not quick:
        pairs += [([3, 2, 2], 2, 3), ([2, 2, 2, 2], 2, 2)]
    for n, r1, r2 in pairs:
        out.append({'func': 'h_add_mul', 'params': {'n': n, 'r1': r1, 'r2': r2}})
    for n, r in [([2, 2], 2), ([2, 1, 2], 2)] + ([] if quick else [([3, 2, 2], 2)]):
        out.append({'func': 'h_numbers', 'params': {'n': n, 'r': r}, 'opts': {'raw': False}})
        out.append({'func': 'h_mean_weighted', 'params': {'n': n, 'r': r}})
        out.append({'func': 'h_get_and_grad', 'params': {'n': n, 'r': r}, 'opts': {'raw': False}})
        out.append({'func': 'h_accuracy_on_data', 'params': {'n': n, 'r': r, 'm': 3}, 'opts': {'raw': False}})
    for n, r in [([2, 2], 1), ([2, 1], 2), ([1, 2, 1], 1)] + ([] if quick else [([2, 1, 2], 1)]):
        out.append({'func': 'h_norm', 'params': {'n': n, 'r': r}, 'opts': {'raw': False}})
    out.append({'func': 'h_outer', 'params': {'n1': [2, 2], 'r1': 2, 'n2': [2], 'r2': 1}})
    out.append({'func': 'h_outer', 'params': {'n1': [2], 'r1': 1, 'n2': [1, 2], 'r2': 2}})
    for n, r in [([2, 2], 2), ([2, 2, 2], 2)] + ([] if quick else [([3, 3, 3], 2)]):
        for pmode in ('none', 'common', 'per_mode'):
            for with_i in (False, True):
                for norm in ('none', 'natural', 'linalg'):
                    if norm == 'linalg' and quick and len(n) == 3:
                        continue
                    out.append({'func': 'h_interface', 'params': {'n': n, 'r': r, 'pmode': pmode,
                                                                  'with_i': with_i, 'norm': norm},
                                'opts': {'raw': False, 'generic_divisors': norm == 'linalg'}})
    # shapes that are not palindromes (per-mode quantities must follow the sweep direction)
    for n, r in [([3, 1, 2], 2), ([1, 2, 3], [1, 2, 2, 1])]:
        for norm in ('natural', 'none'):
            for pmode, with_i in (('none', False), ('per_mode', True)):
                out.append({'func': 'h_interface', 'params': {'n': n, 'r': r, 'pmode': pmode, 'with_i': with_i, 'norm': norm},
                            'opts': {'raw': False}})
    # documented short forms of the norm names
    for norm in ('l', 'n'):
        out.append({'func': 'h_interface', 'params': {'n': [2, 2], 'r': 2, 'pmode': 'per_mode', 'with_i': False, 'norm': norm},
                    'opts': {'raw': False, 'generic_divisors': norm == 'l'}})
    out.append({'func': 'h_trees', 'params': {'n': [2, 2], 'depth': 1}, 'opts': {'raw': False}})
    out.append({'func': 'h_trees', 'params': {'n': [2, 2], 'depth': 2}, 'opts': {'raw': False}})
    if not quick:
        out.append({'func': 'h_trees', 'params': {'n': [2, 1, 2], 'depth': 2}, 'opts': {'raw': False}})
        out.append({'func': 'h_trees', 'params': {'n': [2, 2], 'depth': 3}, 'opts': {'raw': False}})
    for n, r in [([2, 2], 2), ([2, 2, 2], 2)]:
        out.append({'func': 'h_integer_exact', 'params': {'n': n, 'r': r}, 'opts': {'raw': False}})
    return out


BOUNDS = {
    'quick': 'd in {2,3}, mode sizes 1..3, ranks 1..3 (incl. rank > mode size, unequal ranks); every core entry, weight and number '
             'operand symbolic; all multi-indices; expression trees of depth <= 2 over {add, sub, mul, number, copy}; identities on '
             'get/get_many/full/sum/mean/add/sub/mul/mul_scalar/norm/outer decided by z3 on the un-normalised term DAGs',
    'thorough': 'adds d=4, mode size 3, trees of depth 3',
}
OUTSIDE = ('rounding of the sums of products (exact arithmetic; integer mode gives the magnitude bound for bit-exactness); '
           'getter (numba absent); stabilised accuracy (C16); shapes beyond the bounds; composition beyond the tree depth is '
           'covered by each operator being verified for arbitrary well-formed operands')
ASSUMPTIONS = ['exact real arithmetic', 'norm: sqrt modelled as the non-negative root']
