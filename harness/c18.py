"""C18 - grid index <-> point maps round-trip exactly and clamp to the box."""
import itertools
import numpy as np
import teneva
from harness.common import *


def _box(ctx, d):
    a = vec(ctx, 'a', d)
    b = vec(ctx, 'b', d)
    for k in range(d):
        ctx.assume(ctx.lt(a[k], b[k]), 'a < b per dimension')
    return a, b


def _ivec(ctx, name, d):
    v = np.empty(d, dtype=object if is_sym(ctx) else int)
    for k in range(d):
        v[k] = ctx.integer(f'{name}_{k}')
    return v


def h_uni_roundtrip(ctx, d, batch):
    """Uniform grid, symbolic box, symbolic *unbounded* integer n >= 2 and index."""
    a, b = _box(ctx, d)
    n = _ivec(ctx, 'n', d)
    i = _ivec(ctx, 'i', d)
    for k in range(d):
        ctx.assume(ctx.ge(n[k], 2))
        ctx.assume(ctx.ge(i[k], 0))
        ctx.assume(ctx.le(i[k], n[k] - 1))
    I = np.array([i, i]) if batch else i
    X = teneva.ind_to_poi(I, a, b, n, 'uni')
    x = X[0] if batch else X
    ctx.claim('shape', np.shape(X) == np.shape(I))
    for k in range(d):
        ctx.claim('point_in_box', ctx.all_([ctx.ge(x[k], a[k]), ctx.le(x[k], b[k])]))
        ctx.claim('index0_is_a', ctx.implies(ctx.eq(i[k], 0), ctx.eq(x[k], a[k])))
        ctx.claim('index_last_is_b', ctx.implies(ctx.eq(i[k], n[k] - 1), ctx.eq(x[k], b[k])))
        ctx.claim('affine', ctx.eq(x[k] * (n[k] - 1), a[k] * (n[k] - 1) + (b[k] - a[k]) * i[k]))
    J = teneva.poi_to_ind(X, a, b, n, 'uni')
    j = J[0] if batch else J
    ctx.claim('roundtrip', ctx.all_([ctx.eq(j[k], i[k]) for k in range(d)]))
    if batch:
        ctx.claim('batch_rows_agree', ctx.all_([ctx.eq(J[0][k], J[1][k]) for k in range(d)]))


def h_uni_point(ctx, d):
    """Arbitrary real point: nearest node, clamping."""
    a, b = _box(ctx, d)
    n = _ivec(ctx, 'n', d)
    x = vec(ctx, 'x', d)
    for k in range(d):
        ctx.assume(ctx.ge(n[k], 2))
    J = teneva.poi_to_ind(x, a, b, n, 'uni')
    for k in range(d):
        ctx.claim('index_in_range', ctx.all_([ctx.ge(J[k], 0), ctx.le(J[k], n[k] - 1)]))
        ctx.claim('below_box_to_first', ctx.implies(ctx.le(x[k], a[k]), ctx.eq(J[k], 0)))
        ctx.claim('above_box_to_last', ctx.implies(ctx.ge(x[k], b[k]), ctx.eq(J[k], n[k] - 1)))
        # inside: |J - t| <= 1/2 with t the grid parameter of x
        t = (x[k] - a[k]) / (b[k] - a[k]) * (n[k] - 1)
        inside = ctx.all_([ctx.ge(x[k], a[k]), ctx.le(x[k], b[k])])
        near = ctx.all_([ctx.le(J[k] - t, 0.5), ctx.ge(J[k] - t, -0.5)])
        ctx.claim('nearest_node', ctx.implies(inside, near))


def h_cheb_roundtrip(ctx, n):
    """Chebyshev grid, concrete n (exact algebraic cosines), all indices."""
    a, b = _box(ctx, 1)
    for i in range(n):
        X = teneva.ind_to_poi(np.array([i]), a, b, n, 'cheb')
        ctx.claim('point_in_box', ctx.all_([ctx.ge(X[0], a[0]), ctx.le(X[0], b[0])]))
        if i == 0:
            ctx.claim('index0_is_b', ctx.eq(X[0], b[0]))
        if i == n - 1:
            ctx.claim('index_last_is_a', ctx.eq(X[0], a[0]))
        J = teneva.poi_to_ind(X, a, b, n, 'cheb')
        ctx.claim('roundtrip', ctx.eq(J[0], i))
    # batch equals singles
    I = np.arange(n).reshape(-1, 1)
    XB = teneva.ind_to_poi(I, a, b, n, 'cheb')
    JB = teneva.poi_to_ind(XB, a, b, n, 'cheb')
    ctx.claim('batch_roundtrip', ctx.all_([ctx.eq(JB[i, 0], i) for i in range(n)]))
    ctx.claim('monotone_decreasing', ctx.all_([ctx.gt(XB[i, 0], XB[i + 1, 0]) for i in range(n - 1)]))


def h_cheb_point(ctx, n):
    a, b = _box(ctx, 1)
    x = vec(ctx, 'x', 1)
    # node values first: the arccos model is exact at (and monotone between)
    # the cosine values known when it is applied
    I = np.arange(n).reshape(-1, 1)
    XB = teneva.ind_to_poi(I, a, b, n, 'cheb')
    J = teneva.poi_to_ind(x, a, b, n, 'cheb')
    ctx.claim('index_in_range', ctx.all_([ctx.ge(J[0], 0), ctx.le(J[0], n - 1)]))
    ctx.claim('above_box_to_first', ctx.implies(ctx.ge(x[0], b[0]), ctx.eq(J[0], 0)))
    ctx.claim('below_box_to_last', ctx.implies(ctx.le(x[0], a[0]), ctx.eq(J[0], n - 1)))
    # between two neighbouring nodes the index is one of the two
    for i in range(n - 1):
        between = ctx.all_([ctx.le(x[0], XB[i, 0]), ctx.ge(x[0], XB[i + 1, 0])])
        ctx.claim('between_nodes', ctx.implies(between, ctx.any_([ctx.eq(J[0], i), ctx.eq(J[0], i + 1)])))


def h_scale(ctx, d, kind):
    a, b = _box(ctx, d)
    x = vec(ctx, 'x', d)
    if kind == 'custom':
        lo = ctx.real('lo')
        hi = ctx.real('hi')
        ctx.assume(ctx.lt(lo, hi))
        knd = (lo, hi)
    else:
        knd = kind
        lo, hi = (0, 1) if kind == 'uni' else (-1, 1)
    S = teneva.poi_scale(x, a, b, knd)
    SB = teneva.poi_scale(np.array([x, x]), a, b, knd)
    for k in range(d):
        aff = lo + (x[k] - a[k]) / (b[k] - a[k]) * (hi - lo)
        inside = ctx.all_([ctx.ge(x[k], a[k]), ctx.le(x[k], b[k])])
        ctx.claim('affine_inside', ctx.implies(inside, ctx.eq(S[k], aff)))
        ctx.claim('clip_low', ctx.implies(ctx.le(x[k], a[k]), ctx.eq(S[k], lo)))
        ctx.claim('clip_high', ctx.implies(ctx.ge(x[k], b[k]), ctx.eq(S[k], hi)))
        ctx.claim('range', ctx.all_([ctx.ge(S[k], lo), ctx.le(S[k], hi)]))
        ctx.claim('batch_equals_single', ctx.all_([ctx.eq(SB[0, k], S[k]), ctx.eq(SB[1, k], S[k])]))
    ctx.claim('argument_untouched', True)


def h_scalar_options(ctx, d, kind):
    """Scalar and per-dimension options are interchangeable (concrete scalar
    box, symbolic points and indices)."""
    a0, b0, n0 = -1.5, 2.25, 5
    x = vec(ctx, 'x', d)
    A = cvec(ctx, [a0] * d)
    B = cvec(ctx, [b0] * d)
    N = np.full(d, n0, dtype=int)
    S1 = teneva.poi_scale(x, a0, b0, kind)
    S2 = teneva.poi_scale(x, A, B, kind)
    ctx.claim('poi_scale_scalar_eq_vector', ctx.all_([ctx.eq(S1[k], S2[k]) for k in range(d)]))
    if kind == 'uni':
        J1 = teneva.poi_to_ind(x, a0, b0, n0, kind)
        J2 = teneva.poi_to_ind(x, A, B, N, kind)
        ctx.claim('poi_to_ind_scalar_eq_vector', ctx.all_([ctx.eq(J1[k], J2[k]) for k in range(d)]))
    i = [k % n0 for k in range(d)]
    X1 = teneva.ind_to_poi(np.array(i), a0, b0, n0, kind)
    X2 = teneva.ind_to_poi(np.array(i), A, B, N, kind)
    ctx.claim('ind_to_poi_scalar_eq_vector', ctx.all_([ctx.eq(X1[k], X2[k]) for k in range(d)]))


def h_reuse_options(ctx, kind):
    """The same option arrays used for several calls (single index, native int n)."""
    a, b = _box(ctx, 2)
    n = np.array([3, 4])
    n0 = n.copy()
    i = np.array([2, 3])
    X1 = teneva.ind_to_poi(i, a, b, n, kind)
    X2 = teneva.ind_to_poi(i, a, b, n, kind)
    ctx.claim('second_call_same_points', ctx.all_([ctx.eq(X1[k], X2[k]) for k in range(2)]))
    ctx.claim('options_untouched', bool(np.array_equal(n, n0)))
    ctx.claim('last_index_is_end', ctx.all_([ctx.eq(X2[k], b[k] if kind == 'uni' else a[k]) for k in range(2)]))
    J = teneva.poi_to_ind(X2, a, b, n, kind)
    ctx.claim('roundtrip', all(int(J[k]) == int(i[k]) for k in range(2)))
    ctx.claim('options_untouched_after_poi_to_ind', bool(np.array_equal(n, n0)))
    # scalar options: the caller edits the vectors it got from grid_prep_opts; later calls with the
    # same scalars still mean the same box and grid as the per-dimension lists
    a0 = ctx.real('a0')
    b0 = ctx.real('b0')
    ctx.assume(ctx.gt(b0 - a0, 1))
    ctx.assume(ctx.lt(b0 - a0, 8))
    ctx.assume(ctx.gt(a0, -8))
    ctx.assume(ctx.lt(a0, 8))
    av, bv, nv = teneva.grid_prep_opts(a0, b0, 5, 2)
    av[0] = av[0] + 5
    bv *= 2
    nv[1] = 12
    i2 = np.array([[4, 0], [2, 3]])
    Xs = teneva.ind_to_poi(i2, a0, b0, 5, kind)
    Xl = teneva.ind_to_poi(i2, [a0, a0], [b0, b0], [5, 5], kind)
    ctx.claim('scalar_options_equal_per_dimension_after_edit', ctx.all_eq(Xs, Xl))
    Js = teneva.poi_to_ind(Xl, a0, b0, 5, kind)
    ctx.claim('roundtrip_scalar_options_after_edit', bool(np.array_equal(np.asarray(Js, dtype=int), i2)))


def h_bad_options(ctx):
    x = vec(ctx, 'x', 2)
    ctx.raises(ValueError, 'len_mismatch_ab', teneva.grid_prep_opts, [0., 0.], [1., 1., 1.], None)
    ctx.raises(ValueError, 'len_mismatch_d', teneva.grid_prep_opts, [0., 0.], [1., 1.], None, 3)
    ctx.raises(ValueError, 'scalar_without_d', teneva.grid_prep_opt, 1.)
    ctx.raises(ValueError, 'poi_scale_mismatch', teneva.poi_scale, x, [0., 0., 0.], [1., 1., 1.])
    ctx.raises(ValueError, 'unknown_kind', teneva.ind_to_poi, np.array([0, 1]), 0., 1., 3, 'foo')


def h_grid_flat(ctx, n):
    """Finite-domain query: is there a row t whose entries differ from the
    first-index-fastest expansion of t, or a multi-index that is missing?"""
    T = teneva.grid_flat(n)
    N = int(np.prod(n))
    ctx.claim('shape', T.shape == (N, len(n)))
    t = ctx.integer('t')
    ctx.assume(ctx.ge(t, 0))
    ctx.assume(ctx.lt(t, N))
    if is_sym(ctx):
        digits = []
        rem = t
        for k in n:
            q_, r_ = divmod(rem, int(k))
            digits.append(r_)
            rem = q_
        rows = []
        for j in range(N):
            rows.append(ctx.all_([ctx.eq(t, j)] + [ctx.eq(digits[c], int(T[j, c])) for c in range(len(n))]))
        ctx.claim('row_t_is_expansion_of_t', ctx.any_(rows))
    else:
        exp = np.unravel_index(int(t), n, order='F')
        ctx.claim('row_t_is_expansion_of_t', all(int(T[int(t), c]) == int(exp[c]) for c in range(len(n))))
    ctx.claim('scalar_n', np.array_equal(teneva.grid_flat(4), np.arange(4)))


def h_cdf(ctx, m, reuse=False, int_sample=None, as_list=False):
    """reuse: the caller overwrites its sample buffer with the next batch after the
    getter was built; the getter still describes the sample it was built from.
    int_sample: the sample is a concrete list / array of integers (integer dtype),
    the query stays a symbolic real (negative and fractional values included)."""
    z = ctx.real('z')
    if int_sample is not None:
        m = len(int_sample)
        xs = [int(v) for v in int_sample]
        buf = list(xs) if as_list else np.array(xs)
        ctx.assume(ctx.gt(z, min(xs) - 2))
        ctx.assume(ctx.lt(z, max(xs) + 2))
    else:
        xs = vec(ctx, 'x', m)
        buf = xs.copy()
    cdf = teneva.cdf_getter(buf)
    if reuse:
        buf[...] = vec(ctx, 'w', m)
    v = cdf(z)
    alts = []
    for kk in range(m + 1):
        for S in itertools.combinations(range(m), kk):
            # (the samples and z are inputs: in the concrete twin they are compared exactly,
            # a query exactly at a sample value is the interesting case)
            if is_sym(ctx):
                cond = [ctx.le(xs[i], z) if i in S else ctx.gt(xs[i], z) for i in range(m)]
            else:
                cond = [bool(xs[i] <= z) if i in S else bool(xs[i] > z) for i in range(m)]
            alts.append(ctx.all_(cond + [ctx.close(v, ctx.const(kk) / m, 1e-12)]))
    ctx.claim('right_continuous_step_function', ctx.any_(alts))
    ctx.claim('in_unit_interval', ctx.all_([ctx.ge(v, 0), ctx.le(v, 1)]))


def h_concrete_boxes(ctx):
    """Real code, fixed non-dyadic boxes: scaled points stay inside [-1, 1] /
    [0, 1] in floating point as well (a scaled bound may round to 1 + 2^-52),
    points on or outside the box go to the boundary index.  Supplementary:
    exact arithmetic cannot see the rounding of the affine map."""
    rng = np.random.default_rng(7)
    ok_range, ok_ind = True, True
    boxes = [(-3.0, -2.6), (0.1, 0.7), (-1.3, 2.9), (5.3, 5.9), (-0.7, -0.1)]
    boxes += [tuple(sorted(rng.uniform(-5, 5, size=2))) for _ in range(60)]
    for a, b in boxes:
        if b - a < 1e-3:
            continue
        X = np.array([[a], [b], [a - 0.5], [b + 0.5], [a - 1e-13], [b + 1e-13], [(a + b) / 2]])
        for kind, lo, hi in (('uni', 0., 1.), ('cheb', -1., 1.)):
            S = teneva.poi_scale(X, a, b, kind)
            ok_range = ok_range and bool(np.all(S >= lo) and np.all(S <= hi))
            for n in (2, 8):
                I = teneva.poi_to_ind(X, a, b, n, kind)
                first, last = (0, n - 1) if kind == 'uni' else (n - 1, 0)
                want = [first, last, first, last, first, last]
                ok_ind = ok_ind and [int(v) for v in I[:6, 0]] == want
    ctx.claim('scaled_points_inside_the_target_interval', bool(ok_range))
    ctx.claim('points_outside_go_to_the_boundary_index', bool(ok_ind))
    # index arrays of narrow integer dtypes (what a compact sample file holds) on grids as long as the
    # dtype allows: same points as for the default integer dtype, ends at the ends, exact round trip
    ok_nar = True
    for dt, n in ((np.uint8, 130), (np.uint8, 256), (np.int8, 66), (np.int8, 128), (np.int16, 20000), (np.uint16, 40000)):
        I64 = np.array([0, 1, n // 4, n // 2, n // 2 + 1, n - 2, n - 1]).reshape(-1, 1)
        In = I64.astype(dt)
        for kind in ('uni', 'cheb'):
            P64 = teneva.ind_to_poi(I64, -2., 3., n, kind)
            Pn = teneva.ind_to_poi(In, -2., 3., n, kind)
            ok_nar = ok_nar and bool(np.allclose(Pn, P64, rtol=0, atol=1e-12)) and In.dtype == dt
            ok_nar = ok_nar and bool(np.all((Pn >= -2.) & (Pn <= 3.)))
            lo, hi = (Pn[0, 0], Pn[-1, 0]) if kind == 'uni' else (Pn[-1, 0], Pn[0, 0])
            ok_nar = ok_nar and abs(lo + 2.) < 1e-12 and abs(hi - 3.) < 1e-12
            ok_nar = ok_nar and bool(np.array_equal(np.asarray(teneva.poi_to_ind(Pn, -2., 3., n, kind), dtype=int), I64))
    ctx.claim('narrow_integer_index_dtypes', bool(ok_nar))


def instances(tier):
    out = []
    quick = tier == 'quick'
    out.append({'func': 'h_concrete_boxes', 'params': {}, 'opts': {'concrete_only': True}})
    for d in ([1, 2] if quick else [1, 2, 3]):
        for batch in (False, True):
            out.append({'func': 'h_uni_roundtrip', 'params': {'d': d, 'batch': batch}})
    for d in [1, 2]:
        out.append({'func': 'h_uni_point', 'params': {'d': d}})
    for n in ([2, 3, 4, 5] if quick else [2, 3, 4, 5, 6, 7]):
        out.append({'func': 'h_cheb_roundtrip', 'params': {'n': n}})
        out.append({'func': 'h_cheb_point', 'params': {'n': n}})
    for d in [1, 2]:
        for kind in ('uni', 'cheb', 'custom'):
            out.append({'func': 'h_scale', 'params': {'d': d, 'kind': kind}})
    for kind in ('uni', 'cheb'):
        out.append({'func': 'h_scalar_options', 'params': {'d': 2, 'kind': kind}})
    out.append({'func': 'h_bad_options', 'params': {}})
    if tier == 'experimental':
        out.append({'func': 'h_uni_roundtrip_fl', 'params': {}})
    for kind in ('uni', 'cheb'):
        out.append({'func': 'h_reuse_options', 'params': {'kind': kind}})
    for n in ([[2, 3], [3, 2, 2], [4]] if quick else [[2, 3], [3, 2, 2], [3, 3, 3], [2, 2, 2, 2], [4], [1]]):
        out.append({'func': 'h_grid_flat', 'params': {'n': n}})
    for m in ([1, 2, 3] if quick else [1, 2, 3, 4]):
        out.append({'func': 'h_cdf', 'params': {'m': m}})
    for m in ([2] if quick else [2, 3]):
        out.append({'func': 'h_cdf', 'params': {'m': m, 'reuse': True}})
    for smp, as_list in (([0, 1, 2, 3], True), ([0, 0, 1, 5, -2], False), ([-3, -1], False)):
        out.append({'func': 'h_cdf', 'params': {'m': len(smp), 'int_sample': smp, 'as_list': as_list}})
    return out


BOUNDS = {
    'quick': 'uniform grid: d in {1,2}, symbolic box a<b, symbolic UNBOUNDED integers n>=2 and 0<=i<=n-1, symbolic real points; '
             'Chebyshev grid: n in 2..5 (exact algebraic cosines), all indices, symbolic box and points (monotone arccos atom); '
             'poi_scale uni/cheb/custom limits d<=2; grid_flat shapes (2,3),(3,2,2) as a finite-domain query; cdf_getter m<=3 symbolic samples, integer samples of 2-5 values with a symbolic real query',
    'thorough': 'adds d=3, Chebyshev n up to 7, grid_flat (3,3,3),(2,2,2,2), cdf m=4',
}
OUTSIDE = ('IEEE rounding of the maps (exact real arithmetic here); Chebyshev grids with n-1 not in {1..6} (no closed-form '
           'cosines modelled); symbolic scalar options (the scalar path is exercised with concrete scalars)')
ASSUMPTIONS = ['exact real arithmetic', 'cdf_getter: 1./len(x) is a concrete float step, values compared within 1e-12', 'arccos modelled as a strictly decreasing function exact at the cosine values of the grid',
               'np.rint: integer within 1/2, ties to even']


def h_uni_roundtrip_fl(ctx):
    """Uniform grid round trip in the standard model of floating point arithmetic
    (every operation of the real code multiplied by 1 + delta, |delta| <= 2^-53),
    for ALL real a < b, integers n >= 2, 0 <= i <= n-1 with the conditioning bound
    (n-1)(|a|+|b|) <= 2^40 (b-a).  (Without a bound the statement is false in float64.)"""
    a = vec(ctx, 'a', 1)
    b = vec(ctx, 'b', 1)
    ctx.assume(ctx.lt(a[0], b[0]))
    n = np.empty(1, dtype=object if is_sym(ctx) else int)
    i = np.empty(1, dtype=object if is_sym(ctx) else int)
    n[0] = ctx.integer('n')
    i[0] = ctx.integer('i')
    ctx.assume(ctx.ge(n[0], 2))
    ctx.assume(ctx.ge(i[0], 0))
    ctx.assume(ctx.le(i[0], n[0] - 1))
    K = 2 ** 40
    for sa in (1, -1):
        for sb in (1, -1):
            ctx.assume(ctx.le((a[0] * sa + b[0] * sb) * (n[0] - 1), (b[0] - a[0]) * K),
                       'conditioning: (n-1)(|a|+|b|) <= 2^40 (b-a)')
    if is_sym(ctx):
        ctx.fl_on = True
    try:
        X = teneva.ind_to_poi(i, a, b, n, 'uni')
        J = teneva.poi_to_ind(X, a, b, n, 'uni')
    finally:
        if is_sym(ctx):
            ctx.fl_on = False
    ctx.claim('roundtrip_in_float_model', ctx.eq(J[0], i[0]))
    if is_sym(ctx):
        ctx.claim('rounded_operations_modelled', ctx.fl_count >= 6)
