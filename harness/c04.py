"""C04 - orthogonalize preserves the tensor and yields orthonormal cores around the pivot."""
import itertools
import numpy as np
import teneva
from harness.common import *
from symtt.ref import ref_full, well_formed


def rF(A, shape):
    return np.reshape(A, shape, order='F')


def h_left_step(ctx, d, i, n, rl, rr, inplace, layout='C', alias=False):
    """orthogonalize_left on core i := Q R (Q Householder frame, R arbitrary,
    rank deficient included); all other cores free."""
    ranks = [1] + [2] * (d - 1) + [1]
    ranks[i] = rl if i > 0 else 1
    ranks[i + 1] = rr
    ns = [2] * d
    ns[i] = n
    Y = ctx.tt('y', ns, ranks)
    rows = ranks[i] * n
    k = min(rows, rr)
    Q = householder_frame(ctx, 'q', rows, k)
    R = mat(ctx, 'r', k, rr)
    M = Q @ R
    Y[i] = rF(M, (ranks[i], n, rr))
    expect(ctx, 'qr', M, (Q, R))
    if rr > rows:
        # (an implementation may factorise the leading square block of a wide unfolding instead)
        expect(ctx, 'qr', M[:, :rows].copy(), (Q, R[:, :rows].copy()))
    if layout == 'F':
        Y = [np.asfortranarray(G) for G in Y]          # e.g. cores that came out of LAPACK
    if alias:
        # the same array object at two positions of the list (a tensor with a repeated core)
        assert Y[i + 2].shape == Y[i + 1].shape
        Y[i + 2] = Y[i + 1]
    Y0 = [G.copy() for G in Y]
    objs = list(Y)
    Z = teneva.orthogonalize_left(Y, i, inplace=inplace)
    ctx.claim('well_formed', well_formed(Z, ns))
    ctx.claim('no_rank_increase', all(Z[j].shape[2] <= Y0[j].shape[2] for j in range(d)))
    ctx.claim('tensor_preserved', ctx.all_eq(ref_full(Z), ref_full(Y0)))
    U = rF(Z[i], (-1, Z[i].shape[2]))
    ctx.claim('orthonormal_columns', ctx.all_eq(U.T @ U, eye(ctx, U.shape[1])))
    ctx.claim('rank_cut', Z[i].shape[2] == k)
    if inplace:
        ctx.claim('inplace_same_list', Z is Y)
        ctx.claim('inplace_only_two_cores', all(Z[j] is objs[j] for j in range(d) if j not in (i, i + 1)))
    else:
        ctx.claim('argument_untouched', len(Y) == d and all(Y[j] is objs[j] for j in range(d)) and
                  all(bool(ctx.all_eq(Y[j], Y0[j])) for j in range(d)))
        ctx.claim('result_is_new_list', Z is not Y)
    ctx.claim('finite', finite(ctx, Z))
    ctx.canary('canary', ctx.all_eq(ref_full(Z), ref_full(Y0) * 2))
    if not inplace:
        # "returns a new tensor": what the caller does to the cores it got back is its own business
        snap = [G.copy() for G in Z]
        for G in Z:
            if G.flags.writeable:
                G[...] = G * 2 + 1
        Z2 = teneva.orthogonalize_left(Y, i)
        ctx.claim('second_call_unaffected_by_writes_to_first_result',
                  all(a.shape == b.shape and bool(ctx.all_eq(a, b)) for a, b in zip(Z2, snap)))


def h_right_step(ctx, d, i, n, rl, rr, inplace, layout='C'):
    ranks = [1] + [2] * (d - 1) + [1]
    ranks[i] = rl
    ranks[i + 1] = rr if i < d - 1 else 1
    ns = [2] * d
    ns[i] = n
    Y = ctx.tt('y', ns, ranks)
    cols = n * ranks[i + 1]
    k = min(rl, cols)
    Q = householder_frame(ctx, 'q', cols, k).T
    R = mat(ctx, 'r', rl, k)
    M = R @ Q
    Y[i] = rF(M, (rl, n, ranks[i + 1]))
    expect(ctx, 'rq', M, (R, Q))
    if layout == 'F':
        Y = [np.asfortranarray(G) for G in Y]
    Y0 = [G.copy() for G in Y]
    objs = list(Y)
    Z = teneva.orthogonalize_right(Y, i, inplace=inplace)
    ctx.claim('well_formed', well_formed(Z, ns))
    ctx.claim('no_rank_increase', all(Z[j].shape[2] <= Y0[j].shape[2] for j in range(d)))
    ctx.claim('tensor_preserved', ctx.all_eq(ref_full(Z), ref_full(Y0)))
    V = rF(Z[i], (Z[i].shape[0], -1))
    ctx.claim('orthonormal_rows', ctx.all_eq(V @ V.T, eye(ctx, V.shape[0])))
    ctx.claim('rank_cut', Z[i].shape[0] == k)
    if inplace:
        ctx.claim('inplace_same_list', Z is Y)
        ctx.claim('inplace_only_two_cores', all(Z[j] is objs[j] for j in range(d) if j not in (i, i - 1)))
    else:
        ctx.claim('argument_untouched', len(Y) == d and all(Y[j] is objs[j] for j in range(d)) and
                  all(bool(ctx.all_eq(Y[j], Y0[j])) for j in range(d)))
        ctx.claim('result_is_new_list', Z is not Y)
    ctx.claim('finite', finite(ctx, Z))
    if not inplace:
        snap = [G.copy() for G in Z]
        for G in Z:
            if G.flags.writeable:
                G[...] = G * 2 + 1
        Z2 = teneva.orthogonalize_right(Y, i)
        ctx.claim('second_call_unaffected_by_writes_to_first_result',
                  all(a.shape == b.shape and bool(ctx.all_eq(a, b)) for a, b in zip(Z2, snap)))


def h_invalid_mode(ctx, d):
    """Out-of-range / None modes raise ValueError for a symbolic integer mode."""
    Y = ctx.tt('y', [2] * d, 2)
    k = ctx.integer('k')
    ctx.assume(ctx.any_([ctx.lt(k, 0), ctx.gt(k, d - 1)]))
    ctx.raises(ValueError, 'orthogonalize_rejects', teneva.orthogonalize, Y, k)
    i = ctx.integer('i')
    ctx.assume(ctx.any_([ctx.lt(i, 0), ctx.ge(i, d - 1)]))
    ctx.raises(ValueError, 'left_rejects', teneva.orthogonalize_left, Y, i)
    j = ctx.integer('j')
    ctx.assume(ctx.any_([ctx.le(j, 0), ctx.gt(j, d - 1)]))
    ctx.raises(ValueError, 'right_rejects', teneva.orthogonalize_right, Y, j)
    ctx.raises(ValueError, 'left_none', teneva.orthogonalize_left, Y, None)
    ctx.raises(ValueError, 'right_none', teneva.orthogonalize_right, Y, None)


def quasi_diag_tt(ctx, d, n, name='w', shift=0):
    """Super-diagonal TT: G_k[a, i, b] = w_{k,i} [a = s_k(i), b = s_{k+1}(i)]
    with cyclic bond permutations s_k(i) = (i + k*shift) mod n (shift = 0: the
    plain diagonal gauge).  The tensor is super-diagonal for every shift; every
    unfolding of every intermediate is a generalised permutation matrix, so all
    factorisations have closed forms, but for shift != 0 the core unfoldings are
    not symmetric (A A^T != A^T A)."""
    Y = []
    W = []
    for k in range(d):
        rl = 1 if k == 0 else n
        rr = 1 if k == d - 1 else n
        G = zeros(ctx, (rl, n, rr))
        w = vec(ctx, f'{name}{k}', n)
        for i in range(n):
            ctx.assume(ctx.gt(w[i], 0))
            a = 0 if k == 0 else (i + k * shift) % n
            b = 0 if k == d - 1 else (i + (k + 1) * shift) % n
            G[a, i, b] = w[i]
        Y.append(G)
        W.append(w)
    return Y, W


def check_orth(ctx, Z, k, tag=''):
    d = len(Z)
    for j in range(k):
        U = rF(Z[j], (-1, Z[j].shape[2]))
        ctx.claim(f'left_orthonormal{tag}', ctx.all_eq(U.T @ U, eye(ctx, U.shape[1])))
    for j in range(k + 1, d):
        V = rF(Z[j], (Z[j].shape[0], -1))
        ctx.claim(f'right_orthonormal{tag}', ctx.all_eq(V @ V.T, eye(ctx, V.shape[0])))


def h_sweep_quasi(ctx, d, n, k, kkind='int'):
    """kkind: the pivot as a Python int, a NumPy integer scalar or an element of an index array."""
    Y, W = quasi_diag_tt(ctx, d, n)
    Y0 = [G.copy() for G in Y]
    kk = {'int': k, 'np.int64': np.int64(k), 'np.int32': np.int32(k), 'arange': np.arange(d)[k]}[kkind]
    Z = teneva.orthogonalize(Y, kk)
    ctx.claim('well_formed', well_formed(Z, [n] * d))
    F0 = ref_full(Y0)
    ctx.claim('tensor_preserved', ctx.all_eq(ref_full(Z), F0))
    check_orth(ctx, Z, k)
    ctx.claim('pivot_carries_norm', ctx.eq(sumsq(Z[k]), sumsq(F0)))
    ctx.claim('ranks_not_increased', all(Z[j].shape[2] <= Y0[j].shape[2] for j in range(d)))
    ctx.claim('argument_untouched', all(bool(ctx.all_eq(Y[j], Y0[j])) for j in range(d)))
    ctx.claim('finite', finite(ctx, Z))


def h_sweep_d2(ctx, n1, n2, r, k):
    """Complete orthogonalize on a generic 2-D tensor (single factorisation)."""
    Y = ctx.tt('y', [n1, n2], r)
    if k == 1:
        kk = min(n1, r)
        Q = householder_frame(ctx, 'q', n1, kk)
        R = mat(ctx, 'r', kk, r)
        M = Q @ R
        Y[0] = rF(M, (1, n1, r))
        expect(ctx, 'qr', M, (Q, R))
    else:
        kk = min(r, n2)
        Q = householder_frame(ctx, 'q', n2, kk).T
        R = mat(ctx, 'r', r, kk)
        M = R @ Q
        Y[1] = rF(M, (r, n2, 1))
        expect(ctx, 'rq', M, (R, Q))
    Y0 = [G.copy() for G in Y]
    Z = teneva.orthogonalize(Y, k)
    F0 = ref_full(Y0)
    ctx.claim('well_formed', well_formed(Z, [n1, n2]))
    ctx.claim('tensor_preserved', ctx.all_eq(ref_full(Z), F0))
    check_orth(ctx, Z, k)
    ctx.claim('pivot_carries_norm', ctx.eq(sumsq(Z[k]), sumsq(F0)))
    ctx.claim('rank_cut', Z[0].shape[2] == kk)
    ctx.claim('argument_untouched', all(bool(ctx.all_eq(Y[j], Y0[j])) for j in range(2)))
    if k == 1:
        Zd = teneva.orthogonalize(Y)        # default pivot is the last mode
        ctx.claim('default_pivot_is_last', all(bool(ctx.all_eq(a, b)) for a, b in zip(Zd, Z)))


def h_sweep_chain3(ctx, n, k):
    """Generic chain, d = 3, ranks 2: every factorisation's input is defined
    from the factors it returns (R of the previous step invertible)."""
    r = 2
    d = 3
    Y = [None] * 3
    if k == 2:
        Q0 = householder_frame(ctx, 'qa', n, min(n, r))
        R0 = upper(ctx, 'ra', r) if n >= r else None
        for i in range(r):
            ctx.assume(ctx.not_(ctx.eq(R0[i, i], 0)), 'generic chain: first factor R has full rank')
        M0 = Q0 @ R0
        expect(ctx, 'qr', M0, (Q0, R0))
        Y[0] = rF(M0, (1, n, r))
        Q1 = householder_frame(ctx, 'qb', r * n, r)
        R1 = mat(ctx, 'rb', r, r)
        T = Q1 @ R1
        expect(ctx, 'qr', T, (Q1, R1))
        R0inv = np.array([[1 / R0[0, 0], -R0[0, 1] / (R0[0, 0] * R0[1, 1])],
                          [ctx.const(0), 1 / R0[1, 1]]], dtype=T.dtype)
        G1 = R0inv @ rF(T, (r, n * r))
        Y[1] = rF(G1, (r, n, r))
        Y[2] = ctx.array('y2', (r, n, 1))
    elif k == 0:
        Qc = householder_frame(ctx, 'qa', n, min(n, r)).T
        Rc = upper(ctx, 'ra', r)
        for i in range(r):
            ctx.assume(ctx.not_(ctx.eq(Rc[i, i], 0)), 'generic chain: first factor R has full rank')
        M2 = Rc @ Qc
        expect(ctx, 'rq', M2, (Rc, Qc))
        Y[2] = rF(M2, (r, n, 1))
        Qb = householder_frame(ctx, 'qb', n * r, r).T
        Rb = mat(ctx, 'rb', r, r)
        T = Rb @ Qb
        expect(ctx, 'rq', T, (Rb, Qb))
        Rcinv = np.array([[1 / Rc[0, 0], -Rc[0, 1] / (Rc[0, 0] * Rc[1, 1])],
                          [ctx.const(0), 1 / Rc[1, 1]]], dtype=T.dtype)
        G1 = rF(T, (r * n, r)) @ Rcinv
        Y[1] = rF(G1, (r, n, r))
        Y[0] = ctx.array('y0', (1, n, r))
    else:
        Q0 = householder_frame(ctx, 'qa', n, min(n, r))
        R0 = mat(ctx, 'ra', min(n, r), r)
        M0 = Q0 @ R0
        expect(ctx, 'qr', M0, (Q0, R0))
        Y[0] = rF(M0, (1, n, r))
        Qc = householder_frame(ctx, 'qc', n, min(n, r)).T
        Rc = mat(ctx, 'rc', r, min(n, r))
        M2 = Rc @ Qc
        expect(ctx, 'rq', M2, (Rc, Qc))
        Y[2] = rF(M2, (r, n, 1))
        Y[1] = ctx.array('y1', (r, n, r))
    Y0 = [G.copy() for G in Y]
    Z = teneva.orthogonalize(Y, k)
    F0 = ref_full(Y0)
    ctx.claim('well_formed', well_formed(Z, [n] * d))
    ctx.claim('tensor_preserved', ctx.all_eq(ref_full(Z), F0))
    check_orth(ctx, Z, k)
    ctx.claim('pivot_carries_norm', ctx.eq(sumsq(Z[k]), sumsq(F0)))
    ctx.claim('argument_untouched', all(bool(ctx.all_eq(Y[j], Y0[j])) for j in range(d)))


def h_sweep_stab_quasi(ctx, d, n, k, neg=False, flag='True'):
    """Stabilised complete sweep: input = 2^p * Z (see also C16)."""
    from harness.c16 import h_orth_stab_quasi
    h_orth_stab_quasi(ctx, d, n, k, neg, flag)


def h_concrete_scales(ctx):
    """Real code, cores with entries of order 1e+200 / 1e-200 (representable, but
    their squares are not), rank-one and higher bonds: the sweep returns finite
    cores with orthonormal unfoldings that denote the same tensor.  Supplementary:
    exact arithmetic has no overflow."""
    rng = np.random.default_rng(3)
    ok_fin, ok_orth, ok_same = True, True, True
    for ranks, scales in [([1, 1, 2, 1], [1e200, 1e-200, 1.]), ([1, 1, 1, 1], [1e-180, 1e180, 1.]),
                          ([1, 2, 1, 1], [1e150, 1., 1e-150]), ([1, 2, 2, 1], [1e200, 1e-100, 1e-100])]:
        n = [4, 3, 5]
        Y = [rng.normal(size=(ranks[k], n[k], ranks[k + 1])) * scales[k] for k in range(3)]
        F = teneva.full(Y)
        for k in range(3):
            for stab in (False, True):
                try:
                    res = teneva.orthogonalize(Y, k, use_stab=stab)
                except (OverflowError, FloatingPointError, ValueError):
                    ok_fin = False
                    continue
                Z, p = res if stab else (res, 0)
                ok_fin = ok_fin and all(np.all(np.isfinite(G)) for G in Z)
                for j in range(3):
                    if j < k:
                        U = Z[j].reshape(-1, Z[j].shape[2], order='F')
                        ok_orth = ok_orth and bool(np.allclose(U.T @ U, np.eye(U.shape[1]), atol=1e-8))
                    if j > k:
                        V = Z[j].reshape(Z[j].shape[0], -1, order='F')
                        ok_orth = ok_orth and bool(np.allclose(V @ V.T, np.eye(V.shape[0]), atol=1e-8))
                if ok_fin:
                    Fz = teneva.full(Z) * 2. ** p
                    ok_same = ok_same and bool(np.linalg.norm(Fz - F) <= 1e-8 * np.linalg.norm(F))
    # cores of integer dtype (hand-written tensors)
    Yi = [np.array([[[1, 2], [0, 1], [3, -1]]]), np.array([[[2, 1], [1, 0]], [[0, 1], [1, 3]]]), np.array([[[1], [2]], [[-1], [1]]])]
    Fi = teneva.full(Yi)
    for k in range(3):
        Z = teneva.orthogonalize(Yi, k)
        ok_same = ok_same and bool(np.linalg.norm(teneva.full(Z) - Fi) <= 1e-10 * np.linalg.norm(Fi))
        Z, p = teneva.orthogonalize(Yi, k, use_stab=True)
        ok_same = ok_same and bool(np.linalg.norm(teneva.full(Z) * 2. ** p - Fi) <= 1e-10 * np.linalg.norm(Fi))
    ctx.claim('finite_cores', bool(ok_fin))
    ctx.claim('orthonormal_unfoldings', bool(ok_orth))
    ctx.claim('tensor_preserved', bool(ok_same))


def instances(tier):
    out = []
    out.append({'func': 'h_concrete_scales', 'params': {}, 'opts': {'concrete_only': True}})
    # single steps: (d, i, n, rl, rr): every combination of mode size 1..2 and
    # ranks 1..3 on both sides (tall, square, over-ranked, mode size 1)
    left = [(2, 0, 2, 1, 2), (2, 0, 2, 1, 3), (2, 0, 3, 1, 2), (2, 0, 1, 1, 2)]
    right = [(2, 1, 2, 2, 1), (2, 1, 2, 3, 1), (2, 1, 3, 2, 1), (2, 1, 1, 2, 1)]
    for n in (1, 2):
        for rl in (1, 2, 3):
            for rr in (1, 2, 3):
                if n == 2 and rl == 3 and rr == 3 and tier == 'quick':
                    continue
                left.append((3, 1, n, rl, rr))
                right.append((3, 1, n, rl, rr))
    if tier == 'thorough':
        left += [(3, 0, 3, 1, 3), (4, 2, 2, 2, 2)]
        right += [(3, 2, 3, 3, 1), (4, 1, 2, 2, 2)]
    for (d, i, n, rl, rr) in left:
        for inplace in (False, True):
            out.append({'func': 'h_left_step', 'params': {'d': d, 'i': i, 'n': n, 'rl': rl, 'rr': rr, 'inplace': inplace}})
    for (d, i, n, rl, rr) in right:
        for inplace in (False, True):
            out.append({'func': 'h_right_step', 'params': {'d': d, 'i': i, 'n': n, 'rl': rl, 'rr': rr, 'inplace': inplace}})
    # an over-ranked interior bond (right rank above rows of the unfolding, left rank and mode size > 1)
    for (d, i, n, rl, rr) in [(3, 1, 2, 2, 5), (3, 1, 2, 2, 4)]:
        out.append({'func': 'h_left_step', 'params': {'d': d, 'i': i, 'n': n, 'rl': rl, 'rr': rr, 'inplace': False}})
    for (d, i, n, rl, rr) in [(3, 1, 2, 5, 2)]:
        out.append({'func': 'h_right_step', 'params': {'d': d, 'i': i, 'n': n, 'rl': rl, 'rr': rr, 'inplace': False}})
    # a repeated core object next to the pair that is worked on
    for inplace in (True, False):
        out.append({'func': 'h_left_step', 'params': {'d': 4, 'i': 0, 'n': 2, 'rl': 1, 'rr': 2, 'inplace': inplace, 'alias': True}})
    # Fortran-ordered cores (what LAPACK hands back): the order='F' unfoldings are views of the argument
    for (d, i, n, rl, rr) in [(2, 0, 2, 1, 2), (3, 1, 2, 2, 2), (3, 1, 1, 2, 2)]:
        out.append({'func': 'h_left_step', 'params': {'d': d, 'i': i, 'n': n, 'rl': rl, 'rr': rr, 'inplace': False, 'layout': 'F'}})
    for (d, i, n, rl, rr) in [(2, 1, 2, 2, 1), (3, 1, 2, 2, 2), (3, 1, 1, 2, 2)]:
        out.append({'func': 'h_right_step', 'params': {'d': d, 'i': i, 'n': n, 'rl': rl, 'rr': rr, 'inplace': False, 'layout': 'F'}})
    for d in (2, 3):
        out.append({'func': 'h_invalid_mode', 'params': {'d': d}})
    for d, n in ([(3, 2), (4, 2)] if tier == 'quick' else [(3, 2), (4, 2), (3, 3), (5, 2)]):
        for k in range(d):
            out.append({'func': 'h_sweep_quasi', 'params': {'d': d, 'n': n, 'k': k}})
    # the pivot given as a NumPy integer (what argmax / arange / an index array hand over)
    for k, kkind in [(0, 'np.int64'), (1, 'np.int32'), (1, 'arange'), (2, 'np.int64')]:
        out.append({'func': 'h_sweep_quasi', 'params': {'d': 3, 'n': 2, 'k': k, 'kkind': kkind}})
    for d, n in ([(3, 2)] if tier == 'quick' else [(3, 2), (4, 2)]):
        for k in range(d):
            out.append({'func': 'h_sweep_stab_quasi', 'params': {'d': d, 'n': n, 'k': k},
                        'opts': {'symbolic_signs': False}})
            if k in (0, d - 1):
                # pivot core without a positive entry
                out.append({'func': 'h_sweep_stab_quasi', 'params': {'d': d, 'n': n, 'k': k, 'neg': True},
                            'opts': {'symbolic_signs': False}})
                # the stabilisation switch as a truthy value that is not the literal True
                out.append({'func': 'h_sweep_stab_quasi', 'params': {'d': d, 'n': n, 'k': k, 'flag': 'np.bool_' if k else 'cmp'},
                            'opts': {'symbolic_signs': False}})
    for (n1, n2, r) in [(2, 2, 2), (2, 3, 2), (3, 2, 3)]:
        for k in (0, 1):
            out.append({'func': 'h_sweep_d2', 'params': {'n1': n1, 'n2': n2, 'r': r, 'k': k}})
    for k in (0, 1, 2):
        out.append({'func': 'h_sweep_chain3', 'params': {'n': 2, 'k': k}})
    return out


BOUNDS = {
    'quick': 'single steps: unfoldings up to 4x2 / 2x3 (tall, square, over-ranked), d in {2,3}, both in-place settings; '
             'complete sweeps: d=2 generic (all pivots), d=3 generic chain n=2 r=2 (all pivots), quasi-diagonal d in {3,4} n=2; '
             'symbolic: all core entries, Householder parameters, R factors (rank-deficient allowed in single steps)',
    'thorough': 'adds steps with 4x3 / 3x3 / 6x3 unfoldings, d=4 steps, quasi-diagonal d=3 n=3 and d=5 n=2',
}
OUTSIDE = ('stabilised variant (see C16); unfoldings larger than listed; rank-deficient R inside d=3 chains (covered by '
           'single steps and quasi-diagonal family); LAPACK stability on ill-conditioned input; IEEE rounding')
ASSUMPTIONS = ['np.linalg.qr / scipy.linalg.rq contract: A = Q R (R Q), Q with orthonormal columns (rows); R arbitrary '
               '(superset of triangular)', 'orthonormal factors from Householder parametrisations (chart v_j[j] = 1)',
               'exact real arithmetic']
