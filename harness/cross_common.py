"""Shared stubs for the TT-cross harnesses (C05, C06).

Inside these harnesses teneva.maxvol / maxvol_rect are replaced by their own
contract (proved in C08): a nondeterministically chosen set of distinct valid
rows I with a non-singular sub-matrix and B with A = B A[I], B[I] = identity.
np.linalg.qr inside cross._iter is relaxed to Q := Z, R := I, which is without
loss of generality because the run only uses Q Q[I]^-1 = Z Z[I]^-1 and
Q[I] R = Z[I].  teneva.accuracy (only feeding info['e']) is replaced by a
recorder returning an arbitrary non-negative value."""
import itertools
import numpy as np
import teneva
from harness.common import *
from symtt.ref import ref_get


def nondet(ctx, name, lo, hi):
    """Nondeterministic integer in [lo, hi] (all values explored by forking)."""
    if lo == hi:
        return lo
    x = ctx.integer_fresh(name) if hasattr(ctx, 'integer_fresh') else None
    return x


class CrossStubs:
    def __init__(self, ctx, choices='all'):
        self.ctx = ctx
        self.choices = choices
        self.acc_calls = []
        self.mv_calls = 0

    # ---- maxvol contract -------------------------------------------------
    def _pick(self, n, q):
        ctx = self.ctx
        combos = list(itertools.combinations(range(n), q))
        if self.choices == 'first' or len(combos) == 1:
            return list(combos[0])
        if self.choices == 'last':
            return list(combos[-1])
        self.mv_calls += 1
        # the choice is a function of the call number: a second run in the same
        # path (reference run, cached run) makes the same choices
        memo = ctx.__dict__.setdefault('cross_choices', {})
        key = ('pick', self.mv_calls, n, q)
        if key not in memo:
            t = ctx.fresh_int(f'mv{self.mv_calls}')
            ctx.assume(t >= 0)
            ctx.assume(t < len(combos))
            memo[key] = ctx.concretize_int(t)
        return list(combos[memo[key]])

    def maxvol(self, A, e=1.05, k=100):
        from symtt import stubs
        n, r = A.shape
        if n <= r:
            raise ValueError('Input matrix should be "tall"')
        I = self._pick(n, r)
        AI = A[I, :]
        B = stubs.solve_exact(AI.T, A.T).T          # genericity: det A[I] != 0
        return np.array(I, dtype=int), B

    def maxvol_rect(self, A, e=1.1, dr_min=0, dr_max=None, e0=1.05, k0=10):
        from symtt import stubs
        n, r = A.shape
        r_min = r + dr_min
        r_max = min(r + dr_max if dr_max is not None else n, n)
        if r_min < r or r_min > r_max or r_max > n:
            raise ValueError('Invalid minimum/maximum number of added rows')
        ctx = self.ctx
        if r_min == r_max:
            q = r_min
        else:
            self.mv_calls += 1
            memo = ctx.__dict__.setdefault('cross_choices', {})
            key = ('rows', self.mv_calls, n, r_min, r_max)
            if key not in memo:
                t = ctx.fresh_int(f'mvq{self.mv_calls}')
                ctx.assume(t >= r_min)
                ctx.assume(t <= r_max)
                memo[key] = ctx.concretize_int(t)
            q = memo[key]
        I = self._pick(n, q)
        AI = A[I, :]
        if q == r:
            B = stubs.solve_exact(AI.T, A.T).T
        else:
            G = AI.T @ AI
            P = stubs.solve_exact(G, AI.T)              # (A_I^T A_I)^-1 A_I^T   (r x q)
            B = A @ P
            for pos, i in enumerate(I):
                for c in range(q):
                    B[i, c] = Sym_const(1 if c == pos else 0)
        return np.array(I, dtype=int), B

    # ---- accuracy recorder -------------------------------------------------
    def accuracy(self, Y1, Y2):
        if isinstance(Y1, np.ndarray):
            raise NotImplementedError
        ctx = self.ctx
        v = ctx.real(f'acc_{len(self.acc_calls) + 1}')
        ctx.assume(v >= 0)
        self.acc_calls.append((Y1, [G.copy() for G in Y1], [G.copy() for G in Y2], v))
        return v


def Sym_const(c):
    from symtt.sym import Sym
    return Sym.const(c)


class stubs_installed:
    """Context manager: install the cross stubs in symbolic mode."""
    def __init__(self, ctx, choices='all'):
        self.ctx = ctx
        self.st = CrossStubs(ctx, choices) if is_sym(ctx) else None

    def __enter__(self):
        if self.st is not None:
            self.saved = (teneva.maxvol, teneva.maxvol_rect, teneva.accuracy)
            teneva.maxvol = self.st.maxvol
            teneva.maxvol_rect = self.st.maxvol_rect
            teneva.accuracy = self.st.accuracy
            self.ctx.opts['relaxed_qr'] = True
        return self.st

    def __exit__(self, *a):
        if self.st is not None:
            teneva.maxvol, teneva.maxvol_rect, teneva.accuracy = self.saved
            self.ctx.opts['relaxed_qr'] = False
        return False


class Oracle:
    """Element oracle of a target TT-tensor; records every batch."""
    def __init__(self, ctx, target=None, none_at=None, fresh=False, n=None):
        self.ctx = ctx
        self.target = target
        self.batches = []
        self.calls = 0
        self.none_at = none_at
        self.fresh = fresh
        self.n = n
        self.values = {}

    def __call__(self, I):
        self.calls += 1
        I = np.asarray(I)
        self.batches.append(I.copy())
        if self.none_at is not None and bool(self.ctx.eq(self.none_at, self.calls)):
            return None
        out = np.empty(len(I), dtype=object if is_sym(self.ctx) else float)
        for t, i in enumerate(I):
            key = tuple(int(x) for x in i)
            if self.fresh:
                if key not in self.values:
                    self.values[key] = self.ctx.real('f_' + '_'.join(map(str, key)))
                out[t] = self.values[key]
            else:
                out[t] = ref_get(self.target, key)
        return out


def simple_Y0(n, r):
    """A fixed generic initial tensor with small rational entries (its values
    only influence the index choice, which the maxvol contract makes
    nondeterministic anyway)."""
    d = len(n)
    rk = [1] + [r] * (d - 1) + [1] if isinstance(r, int) else list(r)
    Y = []
    c = 0
    for k in range(d):
        G = np.empty((rk[k], n[k], rk[k + 1]), dtype=float)
        for idx in np.ndindex(*G.shape):
            c += 1
            G[idx] = ((c * 7) % 11 + 1) / 4.0 * (-1 if c % 3 == 0 else 1)
        Y.append(G)
    return Y
