"""C09 - public functions never modify their arguments or alias their results to them."""
import importlib
import itertools
import numpy as np
import teneva
from harness.common import *
from symtt import monitors

PUBLIC = None
PASS_THROUGH = {'grid_prep_opt', 'grid_prep_opts', 'core_stab', 'copy'}      # may hand back their argument
INPLACE_OK = {'orthogonalize_left', 'orthogonalize_right'}                    # when inplace=True


def _public_names():
    global PUBLIC
    if PUBLIC is None:
        import re
        src = open(teneva.__file__).read()
        PUBLIC = set(re.findall(r'^from \.\w+ import (\w+)$', src, re.M))
        PUBLIC = {n for n in PUBLIC if not n.startswith('_')}
    return PUBLIC


def _arrays_of(x, path='arg'):
    """(path, ndarray) for every array reachable from an argument."""
    if isinstance(x, np.ndarray):
        return [(path, x)]
    if isinstance(x, (list, tuple)):
        out = []
        for j, e in enumerate(x):
            out.extend(_arrays_of(e, f'{path}[{j}]'))
        return out
    return []


def _same(ctx, a, b):
    if a.shape != b.shape:
        return False
    if a.dtype != object and b.dtype != object:
        return bool(np.array_equal(a, b, equal_nan=True))
    return ctx.all_eq(a, b)


class Monitor:
    """Hook for symtt.monitors: snapshots arguments of every public teneva
    function and states the C09 claims after the call."""

    def __init__(self, ctx):
        self.ctx = ctx
        self.depth = 0
        self.calls = 0

    def __call__(self, phase, qual, fn, args, kwargs, tok_res):
        name = qual.split('.')[-1]
        if name not in _public_names():
            return None
        if phase == 'pre':
            self.depth += 1
            if self.depth > 1:
                return None                      # only calls made by the user (harness), not internal ones
            snap = []
            allargs = list(args) + [v for k, v in kwargs.items() if k not in ('info', 'cache')]
            for ai, a in enumerate(allargs):
                if isinstance(a, dict):
                    continue
                if isinstance(a, list):
                    snap.append(('list', ai, a, len(a), [id(e) for e in a]))
                for path, arr in _arrays_of(a, f'arg{ai}'):
                    snap.append(('arr', path, arr, arr.shape, arr.copy()))
            return snap
        # post
        snap, res = tok_res
        self.depth -= 1
        if snap is None:
            return None
        ctx = self.ctx
        self.calls += 1
        inplace = name in INPLACE_OK and (kwargs.get('inplace') or (len(args) > 2 and args[2]))
        if not inplace:
            ok_list = True
            for s in snap:
                if s[0] == 'list':
                    _, ai, lst, ln, ids = s
                    ok_list = ok_list and len(lst) == ln and [id(e) for e in lst] == ids
            ctx.claim(f'no_mutation:{name}:element_list', ok_list)
            conds = []
            for s in snap:
                if s[0] == 'arr':
                    _, path, arr, shp, cp = s
                    if arr.shape != shp:
                        conds.append(False)
                    else:
                        conds.append(_same(ctx, arr, cp))
            ctx.claim(f'no_mutation:{name}:contents', ctx.all_(conds) if conds else True)
        if name == 'core_stab' and isinstance(res, tuple) and isinstance(args[0], np.ndarray):
            # documented pass-through: only below the threshold
            G = args[0]
            thr = kwargs.get('thr', args[2] if len(args) > 2 else 1.E-100)
            if isinstance(res[0], np.ndarray) and res[0].size and np.shares_memory(res[0], G):
                m = ctx.max_([abs(x) for x in G.reshape(-1)])
                ctx.claim('pass_through_only_below_threshold:core_stab', ctx.le(m, thr))
        if name not in PASS_THROUGH and not inplace:
            outs = _arrays_of(res, 'res')
            alias = False
            for _, ra in outs:
                if ra.dtype.kind in 'iub':
                    # the statement is about returned tensors (TT-cores or dense); an index
                    # array handed back (core_dot_maxvol returns the `ind` it was given) is not one
                    continue
                for s in snap:
                    if s[0] == 'arr' and ra.size and s[2].size and np.shares_memory(ra, s[2]):
                        alias = True
            ctx.claim(f'no_alias:{name}', not alias)
        return None


class monitored:
    def __init__(self, ctx):
        self.ctx = ctx
        self.mon = Monitor(ctx)

    def __enter__(self):
        monitors.install()
        monitors.HOOKS.append(self.mon)
        return self.mon

    def __exit__(self, *a):
        monitors.HOOKS.remove(self.mon)
        return False


def _layout(A, layout):
    if layout == 'C':
        return np.ascontiguousarray(A)
    if layout == 'F':
        return np.asfortranarray(A)
    # strided view into a larger buffer
    big = np.empty(tuple(2 * s for s in A.shape), dtype=A.dtype)
    if A.dtype == object:
        big.fill(0)
    else:
        big.fill(0.)
    sl = tuple(slice(None, None, 2) for _ in A.shape)
    big[sl] = A
    return big[sl]


def _tt(ctx, name, n, r, layout):
    return [_layout(G, layout) for G in ctx.tt(name, n, r)]


def _calls(ctx, group, layout):
    """Call templates of a group as a list of thunks (arguments are built once)."""
    Y = _tt(ctx, 'y', [2, 2], 2, layout)
    Z = _tt(ctx, 'z', [2, 2], 1, layout)
    I2 = np.array([[0, 1], [1, 0], [1, 1]])
    In = np.array([[-1, 0], [1, -2]])
    T = teneva
    if group == 'act':
        P = [vec(ctx, 'p0', 2), vec(ctx, 'p1', 2)]
        pv = vec(ctx, 'p', 2)
        dd = vec(ctx, 'd', 3)
        return [lambda: T.copy(Y), lambda: T.get(Y, [1, 0]), lambda: T.get_many(Y, I2), lambda: T.full(Y), lambda: T.sum(Y),
                lambda: T.mean(Y), lambda: T.mean(Y, P), lambda: T.add(Y, Z), lambda: T.sub(Y, Z), lambda: T.mul(Y, Z),
                lambda: T.mul_scalar(Y, Z), lambda: T.outer(Y, Z), lambda: T.add(Y, 2.), lambda: T.sub(Y, 2.), lambda: T.mul(Y, 2.),
                lambda: T.sub(2., Y), lambda: T.outer_many([Y, Z]), lambda: T.interface(Y, norm=None),
                lambda: T.interface(Y, pv, [1, 0], None, True), lambda: T.get_and_grad(Y, [1, 1]), lambda: T.norm(Z),
                lambda: T.accuracy_on_data(Y, I2, dd), lambda: T.shape(Y), lambda: T.ranks(Y), lambda: T.size(Y), lambda: T.erank(Y),
                # neutral number operands (a shortcut must not hand back the operand itself)
                lambda: T.add(Y, 0.), lambda: T.add(0, Y), lambda: T.sub(Y, 0.), lambda: T.mul(Y, 1.), lambda: T.mul(1, Y),
                lambda: T.mul(Y, 0.), lambda: T.outer_many([Y]),
                # index arrays of the default integer dtype that address elements from the end
                lambda: T.get_many(Y, In), lambda: T.get(Y, In), lambda: T.accuracy_on_data(Y, In, dd[:2]),
                lambda: T.get(Y, In[0]), lambda: T.get_and_grad(Y, In[1])]
    if group == 'optima':
        # beam search on a tensor that is already orthogonal (to_orth=False): no factorisation involved
        Y1 = [_layout(ctx.array('o0', (1, 2, 1)), layout), _layout(ctx.array('o1', (1, 2, 1)), layout)]
        Yd1 = [_layout(ctx.array('s0', (1, 3, 1)), layout)]
        v1 = _layout(vec(ctx, 'v1', 3), layout)
        return [lambda: T.optima_tt_beam(Y1, 1, l2r=True, to_orth=False, p=2),
                lambda: T.optima_tt_beam(Y1, 2, l2r=False, to_orth=False, p=4),
                lambda: T.full(Yd1), lambda: T.copy(Yd1), lambda: T.sum(Yd1),
                # one-dimensional dense input (the single core must be a copy)
                lambda: T.svd(v1, 1e-10),
                # falsy in-place flags that are not the literal False (rank-1 cores: closed-form factorisations)
                lambda: T.orthogonalize_right(Y1, 1, np.False_), lambda: T.orthogonalize_right(Y1, 1, 0),
                lambda: T.orthogonalize_left(Y1, 0, np.False_), lambda: T.orthogonalize_left(Y1, 0, 0),
                lambda: T.orthogonalize_right(Y1, 1, np.array([1, 2])[0] > 5),
                # a tensor with a single core: both sweeps are empty, the result is still a copy
                lambda: T.orthogonalize(Yd1, 0), lambda: T.orthogonalize(Yd1, 0, True), lambda: T.orthogonalize(Yd1)]
    if group == 'core':
        G = _layout(ctx.array('g', (2, 2, 2)), layout)
        R = _layout(ctx.array('r', (2, 2)), layout)
        Q0 = _layout(ctx.array('q0', (1, 2, 2)), layout)
        Q1 = _layout(ctx.array('q1', (2, 2, 1)), layout)
        QQ = _tt(ctx, 'qq', [2, 2], 2, layout)
        G1 = _layout(ctx.array('g1', (1, 2, 1)), layout)
        return [lambda: T.core_dot(G, R), lambda: T.core_dot(G, R, ltr=False), lambda: T.core_stab(G), lambda: T.core_stab(G, 3),
                lambda: T.core_qtt_to_tt([Q0, Q1]), lambda: T.qtt_to_tt(QQ, 2),
                lambda: T.core_qtt_to_tt([Q0]), lambda: T.qtt_to_tt(QQ, 1),
                lambda: T.core_dot_inv(G, R), lambda: T.core_dot_inv(G, R, ltr=False),
                lambda: T.core_dot_maxvol(G, R, ind=np.array([0, 3])), lambda: T.core_dot_maxvol(G, R, ind=np.array([1, 2]), ltr=False),
                # a number in place of the matrix (Python float / int), also on a core with boundary ranks
                # (a number stands for a 1 x 1 matrix: the bond it is applied to has rank 1)
                lambda: T.core_dot(Q1, 2.5), lambda: T.core_dot(Q0, 3, ltr=False),
                lambda: T.core_dot(G1, 2.5), lambda: T.core_dot(G1, 1.0, ltr=False)]
    if group == 'tensors_grid':
        v = ctx.real('v')
        sh = _layout(vec(ctx, 's', 2), layout)
        a = _layout(vec(ctx, 'a', 2), layout)
        b = _layout(vec(ctx, 'b', 2), layout)
        ctx.assume(ctx.lt(a[0], b[0]))
        ctx.assume(ctx.lt(a[1], b[1]))
        X = _layout(mat(ctx, 'x', 2, 2), layout)
        nn = np.array([3, 4])
        cc = _layout(vec(ctx, 'c', 3), layout)
        return [lambda: T.const([2, 3], v), lambda: T.const([2, 2], v, [[0, 1]], [1, 1]), lambda: T.delta([2, 3], [1, 2], v),
                lambda: T.poly([2, 2], sh, 2, v), lambda: T.ind_to_poi(I2[:, :2], a, b, nn, 'uni'), lambda: T.ind_to_poi(np.array([2, 3]), a, b, nn, 'uni'), lambda: T.poi_scale(X, a, b),
                lambda: T.poi_scale(X, a, b, 'cheb'), lambda: T.poi_to_ind(X, a, b, nn), lambda: T.ind_tt_to_qtt(np.array([1, 2]), 4),
                lambda: T.ind_qtt_to_tt(np.array([1, 0, 0, 1]), 2), lambda: T.grid_flat([2, 3]), lambda: T.grid_prep_opts(a, b, nn),
                lambda: T.cdf_getter(cc), lambda: T.vector_delta(2, 1, v), lambda: T.matrix_delta(2, 1, 2, v)]
    if group == 'func':
        A3 = _tt(ctx, 'c', [3, 3], 2, layout)
        Xq = _layout(mat(ctx, 'x', 2, 2), layout)
        xb = _layout(vec(ctx, 'xb', 2), layout)
        Af = _layout(ctx.array('f', (3, 3)), layout)
        xf = _layout(mat(ctx, 'xf', 1, 2), layout)
        Xn = vec(ctx, 'xn', 2)
        ctx.assume(ctx.lt(Xn[0], Xn[1]))
        Y1 = [_layout(ctx.array('h0', (1, 2, 1)), layout), _layout(ctx.array('h1', (1, 2, 1)), layout)]
        av = _layout(vec(ctx, 'av', 2), layout)
        bv = _layout(vec(ctx, 'bv', 2), layout)
        for k in range(2):
            ctx.assume(ctx.lt(av[k], bv[k]))
            ctx.assume(ctx.gt(bv[k], 0))
        return [lambda: T.func_int(A3), lambda: T.func_int(A3, 'sin'), lambda: T.func_gets(A3), lambda: T.func_gets(A3, [2, 4]),
                lambda: T.func_sum(A3, -1., 2.), lambda: T.func_get(Xq, A3, -1., 1.), lambda: T.func_basis(xb, 3),
                lambda: T.func_diff_matrix(-1., 1., 3), lambda: T.func_int_full(Af), lambda: T.func_sum_full(Af, -1., 1.),
                lambda: T.func_get_full(xf, Af, -1., 1.), lambda: T.func_gets_full(Af, -1., 1.),
                lambda: T.func_int_general(Y1, Xn, lambda q: T.func_basis(q, 2)),
                lambda: T.func_sum(A3, av, bv), lambda: T.func_get(Xq, A3, av, bv),
                lambda: T.func_sum_full(Af, -bv, bv), lambda: T.func_get_full(xf, Af, av, bv),
                lambda: T.func_diff_matrix_apply(A3, Af, 'sin')]
    if group == 'anova_sample':
        I = np.array([[0, 0], [1, 1], [0, 1], [1, 0]])
        y = _layout(vec(ctx, 'ya', 4), layout)
        Yp = _tt(ctx, 'pp', [2, 2], 1, layout)
        for G in Yp:
            for x in G.reshape(-1):
                ctx.assume(ctx.gt(x, 0))
        from harness.c14 import _gen
        return [lambda: T.anova(I, y, r=2, order=1, noise=0., seed=3),
                lambda: T.sample(Yp, 1, seed=_gen(ctx, 'm', script=[0, 1]), unsert=0.),
                lambda: T.sample_lhs([2, 2], 2, seed=_gen(ctx, 'l', script=[0, 1, 1, 0])),
                lambda: T.cache_to_data({(0, 1): 1., (1, 1): 2.})]
    raise KeyError(group)


N_STEPS = {'act': 38, 'core': 16, 'tensors_grid': 16, 'func': 18, 'anova_sample': 4, 'optima': 14}


def h_templates(ctx, group, layout, step):
    """One call template (function `step` of the group) with symbolic arguments
    in the given memory layout, under the monitor."""
    calls = _calls(ctx, group, layout)
    assert len(calls) == N_STEPS[group]
    with monitored(ctx) as mon:
        calls[step]()
    ctx.claim('monitored_calls', mon.calls > 0)


def h_reuse(ctx, module, func, params):
    """An instance of another property's harness run under the monitor (LAPACK
    based routines with their registered factorisations)."""
    mod = importlib.import_module(module)
    fn = getattr(mod, func)

    class Quiet:
        """ctx proxy that drops the host harness's own claims (they belong to
        its property) but keeps inputs, assumptions and the C09 claims."""
        def __init__(self, c):
            self.__dict__['_c'] = c
            self.__dict__['_on'] = False

        def __getattr__(self, k):
            return getattr(self._c, k)

        def __setattr__(self, k, v):
            setattr(self._c, k, v)

        def claim(self, name, cond, detail=None):
            if name.startswith('no_mutation') or name.startswith('no_alias'):
                return self._c.claim(name, cond, detail)
            return True

        def canary(self, *a, **k):
            return None

        def raises(self, exc, name, f, *a, **k):
            try:
                f(*a, **k)
            except exc:
                pass
            return True
    q = Quiet(ctx)
    mon = Monitor(q)
    monitors.install()
    monitors.HOOKS.append(mon)
    try:
        fn(q, **params)
    finally:
        monitors.HOOKS.remove(mon)
    ctx.claim('monitored_calls', mon.calls > 0)


def h_concrete_layouts(ctx, layout):
    """Real code, fixed random inputs in the given layout: routines whose
    factorisations the engine cannot encode for generic inputs."""
    rng = np.random.default_rng(0)
    L = lambda A: _layout(np.array(A, dtype=float), layout)
    Y = [L(G) for G in teneva.rand([3, 4, 3], 2, seed=1)]
    I = teneva.sample_lhs([3, 4, 3], 20, seed=2)
    y = L(teneva.get_many(Y, I))
    with monitored(ctx) as mon:
        teneva.truncate(Y, 1e-8); teneva.truncate(Y, 1e-8, is_eigh=False); teneva.truncate(Y, 1e-8, use_stab=True)
        teneva.orthogonalize(Y, 1); teneva.orthogonalize(Y, 0, use_stab=True)
        teneva.orthogonalize_left(Y, 0); teneva.orthogonalize_right(Y, 2)
        F = L(teneva.full(Y))
        teneva.svd(F, 1e-8); teneva.matrix_svd(L(rng.normal(size=(4, 6))), 1e-8); teneva.matrix_skeleton(L(rng.normal(size=(5, 3))))
        A = L(rng.normal(size=(8, 3)))
        teneva.maxvol(A); teneva.maxvol_rect(A, dr_max=2)
        teneva.tt_to_qtt([L(G) for G in teneva.rand([4, 4], 2, seed=3)])
        teneva.svd_matrix(L(rng.normal(size=(4, 4))), 1e-8)
        teneva.als(I, y, Y, nswp=2); teneva.als(I, y, Y, nswp=1, w=L(np.ones(len(I))), lamb=None)
        teneva.als(I, y, Y, nswp=1, update_sol=1e-2); teneva.als(I, y, Y, nswp=1, update_sol=0.5, w=L(np.ones(len(I))))
        for shp in ([4, 1, 3], [1, 4, 3], [3, 4, 1]):           # a mode of size 1: every sample lies in its only slice
            Ym = [L(G) for G in teneva.rand(shp, 2, seed=12)]
            Im = teneva.sample_lhs(shp, 12, seed=3)
            ym = L(teneva.get_many(Ym, Im))
            teneva.als(Im, ym, Ym, nswp=1, lamb=None); teneva.als(Im, ym, Ym, nswp=1)
            teneva.als(Im, ym, Ym, nswp=1, lamb=None, w=L(np.ones(12)))
        teneva.svd(L(rng.normal(size=7)), 1e-8); teneva.svd_matrix(np.asfortranarray(rng.normal(size=(2, 2))), 1e-8)
        teneva.cross(lambda J: teneva.get_many(Y, J), Y, nswp=1)
        teneva.anova(I, y, r=2, order=2, seed=4)
        teneva.accuracy(Y, Y); teneva.add_many([Y, Y, Y], 1e-8); teneva.add_many([Y, 0., Y], 1e-8); teneva.add_many([2., Y], 1e-8)
        teneva.optima_tt(Y, 3); teneva.optima_tt_beam(Y, 3); teneva.optima_qtt([L(G) for G in teneva.rand([4, 4], 2, seed=5)])
        teneva.sample(teneva.mul(Y, Y), 3, seed=6); teneva.sample_square(Y, 3, seed=7)
        X = L(rng.uniform(-1, 1, size=(12, 3)))
        Ac = teneva.func_int([L(G) for G in teneva.rand([3, 3, 3], 2, seed=9)])
        teneva.als_func(X, L(rng.normal(size=12)), Ac, nswp=1)
        teneva.als_func(X, L(rng.normal(size=12)), Ac, nswp=1, n_max=3); teneva.als_func(X, L(rng.normal(size=12)), Ac, nswp=1, n_max=5)
        teneva.als_func(X, L(rng.normal(size=12)), Ac, nswp=1, update_sol=1e-2); teneva.als_func(X, L(rng.normal(size=12)), Ac, nswp=2, update_sol=0.5, lamb=1e-2)
        teneva.anova_func(X[:, :2], L(rng.normal(size=12)), 3)
        Y1 = [L(rng.normal(size=(1, 4, 1))), L(rng.normal(size=(1, 4, 1)))]
        Xn = L(np.cos(np.pi * np.arange(4) / 3))
        teneva.func_int_general(Y1, Xn, lambda q: teneva.func_basis(q, 4))
        It, idx, idm = teneva.sample_tt([3, 4, 3], 2, seed=8)
        teneva.svd_incomplete(It, L(teneva.get_many(Y, It)), idx, idm, 1e-10, 3)
        Gc, Rc = L(rng.normal(size=(2, 3, 2))), L(rng.normal(size=(2, 2)))
        teneva.core_qr_rand(Gc, 1, seed=1); teneva.core_qr_rand(Gc, 1, ltr=False, seed=1)
        teneva.core_dot_maxvol(Gc, Rc); teneva.core_dot_maxvol(Gc, Rc, ltr=False)
        teneva.cdf_confidence(L(rng.normal(size=10)))
        Ap = [L(G) for G in teneva.rand([3, 3], 2, seed=11)]
        teneva.sample_func(teneva.mul(Ap, Ap), seed=1)
        teneva.optima_tt_maxvol(Y, 3)
        teneva.cross_act(lambda X: X[:, 0] + X[:, 1], [Y, Y], [L(G) for G in teneva.rand([3, 4, 3], 2, seed=3)], nswp=1, seed=4)
    ctx.claim('monitored_calls', mon.calls > 0)


def instances(tier):
    out = []
    quick = tier == 'quick'
    for group in ['act', 'core', 'tensors_grid', 'func', 'anova_sample', 'optima']:
        for layout in ('C', 'F', 'S'):
            for step in range(N_STEPS[group]):
                out.append({'func': 'h_templates', 'params': {'group': group, 'layout': layout, 'step': step},
                            'opts': {'generic_divisors': True, 'monitor': True}})
    reuse = [
        ('harness.c02', 'h_generic_d2', {'n1': 2, 'r': 2, 'n2': 2, 'is_eigh': True, 'use_stab': False, 'with_cap': False}),
        ('harness.c02', 'h_quasi', {'d': 3, 'n': 2, 'is_eigh': False, 'use_stab': True, 'with_cap': False}),
        ('harness.c03', 'h_skeleton', {'m': 2, 'n': 3, 'give_to': 'l', 'rel': False, 'with_cap': False}),
        ('harness.c03', 'h_matrix_svd', {'m': 3, 'n': 2, 'with_cap': False}),
        ('harness.c03', 'h_svd_superdiag', {'d': 3, 'n': 2, 'with_cap': False}),
        ('harness.c04', 'h_sweep_d2', {'n1': 2, 'n2': 2, 'r': 2, 'k': 1}),
        ('harness.c04', 'h_sweep_quasi', {'d': 3, 'n': 2, 'k': 1}),
        ('harness.c08', 'h_maxvol', {'n': 3, 'r': 2, 'perm': [1, 2, 0], 'k': 2}),
        ('harness.c08', 'h_maxvol_rect', {'n': 3, 'r': 1, 'perm': [0, 1, 2], 'dr_min': 1, 'dr_max': 2, 'k0': 1}),
        ('harness.c07', 'h_sweeps', {'d': 2, 'n': 2, 'r': 1, 'I': [[0, 0], [1, 1]], 'weighted': True, 'nswp': 1}),
        ('harness.c07', 'h_adaptive', {'n': 2, 'r0': 2, 'r': 2, 'r_add': 0, 'I': None, 'allow_swap': True, 'structured': True}),
        ('harness.c15', 'h_func_beam', {'n': [2, 2], 'k': 1}),
        ('harness.c07', 'h_func', {'m': 2, 'n': 2, 'fixed_cores': True, 'y_last': 1, 'n_max': 2}),
        ('harness.c05', 'h_exact', {'n': [2, 2], 'rho': 1, 'r0': 1, 'dr': [0, 0], 'nswp': 1, 'choices': 'first'}),
        ('harness.c16', 'h_norm', {'n': [2, 1], 'r': 1}),
        ('harness.c17', 'h_core_roundtrip_q1', {'r1': 1, 'r2': 2}),
        ('harness.c13', 'h_func', {'m': 2, 'n': 2, 'd': 2}),
        ('harness.c14', 'h_square_prob', {'n1': 2, 'n2': 2, 'r': 2, 'target': [1, 0]}),
        ('harness.c20', 'h_recover', {'n': [2, 2], 'rho': 1, 'm': 1, 'cap_extra': 0, 'variant': 'first', 'sym_factor': False}),
    ]
    for module, func, params in reuse:
        out.append({'func': 'h_reuse', 'params': {'module': module, 'func': func, 'params': params},
                    'opts': {'generic_divisors': True, 'symbolic_signs': False, 'monitor': True}})
    for layout in ('C', 'F', 'S'):
        out.append({'func': 'h_concrete_layouts', 'params': {'layout': layout}, 'opts': {'concrete_only': True, 'monitor': True}})
    return out


BOUNDS = {
    'quick': 'monitor around every exported function called by a harness: argument snapshots (list length, element identity, shape, '
             'every entry) before, comparison and np.shares_memory(result, argument) after.  Symbolic call templates for 5 groups of '
             'functions in C-ordered, Fortran-ordered and strided layouts; 16 instances of other properties\' harnesses (LAPACK based '
             'routines with registered factorisations; LAPACK overwrite flags poison their buffers with fresh symbols); a concrete '
             'layout sweep of the remaining routines on the real code',
    'thorough': 'same',
}
OUTSIDE = ('functions not reachable by the templates (getter: numba absent; ANOVA.sample / save / load; cross_act, sample_func, '
           'optima_tt_maxvol, core_qr_rand, cdf_confidence only in the concrete layout sweep); aliasing created inside the real LAPACK/BLAS wrappers other than through '
           'documented overwrite flags')
ASSUMPTIONS = ['scipy.linalg.lstsq(overwrite_a/b=True) may destroy the passed buffer (documented contract; modelled by poisoning)',
               'documented exceptions: inplace flag, info / cache dictionaries, pass-through helpers grid_prep_opt(s), core_stab, copy']
