"""C12 - Chebyshev interpolation is exact on polynomials of degree below the grid size."""
import itertools
import numpy as np
import teneva
from harness.common import *
from symtt.ref import ref_full, ref_get, well_formed, multi_indices


def cheb_nodes(ctx, n, a, b):
    """Chebyshev nodes of the box [a, b] through the real ind_to_poi."""
    I = np.arange(n).reshape(-1, 1)
    return teneva.ind_to_poi(I, np.array([a], dtype=object if is_sym(ctx) else float),
                             np.array([b], dtype=object if is_sym(ctx) else float), n, 'cheb')[:, 0]


def polyval(c, x):
    s = 0
    for i in range(len(c) - 1, -1, -1):
        s = s * x + c[i]
    return s


def polyint(ctx, c, a, b):
    s = ctx.const(0)
    for i, ci in enumerate(c):
        s = s + ci * (b ** (i + 1) - a ** (i + 1)) / (i + 1)
    return s


def polyder(c):
    return [c[i] * i for i in range(1, len(c))] or [0]


def _setup(ctx, ns, rho, box=True):
    """Box, polynomial factors p[rho][k] of degree < n_k and node-value cores."""
    d = len(ns)
    if box:
        a = vec(ctx, 'a', d)
        b = vec(ctx, 'b', d)
        for k in range(d):
            ctx.assume(ctx.lt(a[k], b[k]))
    else:
        a = cvec(ctx, [-1] * d)
        b = cvec(ctx, [1] * d)
    coef = [[[ctx.real(f'c{t}_{k}_{i}') for i in range(ns[k])] for k in range(d)] for t in range(rho)]
    nodes = [cheb_nodes(ctx, ns[k], a[k], b[k]) for k in range(d)]
    Y = []
    for k in range(d):
        rl = 1 if k == 0 else rho
        rr = 1 if k == d - 1 else rho
        G = zeros(ctx, (rl, ns[k], rr))
        for t in range(rho):
            al = 0 if k == 0 else t
            be = 0 if k == d - 1 else t
            for j in range(ns[k]):
                if d == 1:
                    G[0, j, 0] = G[0, j, 0] + polyval(coef[t][k], nodes[k][j])
                else:
                    G[al, j, be] = polyval(coef[t][k], nodes[k][j])
        Y.append(G)

    def f(x):
        s = 0
        for t in range(rho):
            p = 1
            for k in range(d):
                p = p * polyval(coef[t][k], x[k])
            s = s + p
        return s
    return a, b, coef, nodes, Y, f


def h_tt_get(ctx, ns, rho, where):
    d = len(ns)
    a, b, coef, nodes, Y, f = _setup(ctx, ns, rho)
    A = teneva.func_int(Y)
    ctx.claim('coeff_shape', well_formed(A, ns))
    x = vec(ctx, 'x', d)
    z = ctx.real('z')
    if where == 'inside':
        for k in range(d):
            ctx.assume(ctx.ge(x[k], a[k]))
            ctx.assume(ctx.le(x[k], b[k]))
    elif where == 'outside':
        ctx.assume(ctx.gt(x[0], b[0] + 1))
    y = teneva.func_get(x, A, a, b, z=z)
    if where == 'inside':
        ctx.claim('interpolant_equals_f', ctx.eq(y, f(x)))
    else:
        ctx.claim('outside_gets_fill_value', ctx.eq(y, z))
    if where == 'inside':
        # a batch that mixes points of the box with points above an upper / below a lower bound
        xo = x.copy()
        xo[d - 1] = b[d - 1] + 1
        xl = x.copy()
        xl[0] = a[0] - 1
        ym = teneva.func_get(np.array([x, xo, xl, x]), A, a, b, z=z)
        ctx.claim('mixed_batch_inside_values_outside_fill',
                  ctx.all_([ctx.eq(ym[0], f(x)), ctx.eq(ym[1], z), ctx.eq(ym[2], z), ctx.eq(ym[3], f(x))]))
    yb = teneva.func_get(np.array([x, x]), A, a, b, z=z)
    ctx.claim('batch_equals_single', ctx.all_([ctx.eq(yb[0], y), ctx.eq(yb[1], y)]))
    # the fill value may be given as an integer: in-box values are unaffected by it
    yi = teneva.func_get(np.array([x, x]), A, a, b, z=-1)
    ctx.claim('integer_fill_value', ctx.eq(yi[0], f(x)) if where == 'inside' else ctx.eq(yi[0], -1))
    # default box [-1, 1] (a, b left out) with the fill flag given explicitly
    x1 = vec(ctx, 'u', d)
    if where == 'outside':
        ctx.assume(ctx.gt(x1[0], 2))
        yd = teneva.func_get(np.array([x1, x1]), A, z=z, skip_out=True)
        ctx.claim('default_box_outside_gets_fill_value', ctx.all_([ctx.eq(yd[0], z), ctx.eq(yd[1], z)]))
        yb1 = teneva.func_get(np.array([x1, x1]), A, a=None, b=1., z=z, skip_out=True)
        ctx.claim('half_default_box_outside_gets_fill_value', ctx.eq(yb1[0], z))
    else:
        for k in range(d):
            ctx.assume(ctx.ge(x1[k], -1))
            ctx.assume(ctx.le(x1[k], 1))
        y_def = teneva.func_get(np.array([x1, x1]), A, z=z, skip_out=True)
        y_exp = teneva.func_get(np.array([x1, x1]), A, -1., 1., z=z)
        ctx.claim('default_box_is_minus_one_one', ctx.eq(y_def[0], y_exp[0]))
    ctx.canary('canary', ctx.eq(y, f(x) + 1))


def h_tt_gets_sum(ctx, ns, rho, ms):
    d = len(ns)
    a, b, coef, nodes, Y, f = _setup(ctx, ns, rho)
    A = teneva.func_int(Y)
    Z = teneva.func_gets(A, ms)
    ctx.claim('resampled_shape', well_formed(Z, ms))
    newn = [cheb_nodes(ctx, ms[k], a[k], b[k]) for k in range(d)]
    F = ref_full(Z)
    ok = [ctx.eq(F[idx], f([newn[k][idx[k]] for k in range(d)])) for idx in multi_indices(ms)]
    ctx.claim('resampling_gives_f_at_new_nodes', ctx.all_(ok))
    S = teneva.func_sum(A, a, b)
    exact = ctx.const(0)
    for t in range(rho):
        p = ctx.const(1)
        for k in range(d):
            p = p * polyint(ctx, coef[t][k], a[k], b[k])
        exact = exact + p
    ctx.claim('integral_exact', ctx.eq(S, exact))


def h_inverse_linear(ctx, ns, r, kind):
    """func_gets(func_int(Y)) = Y for arbitrary symbolic cores; linearity."""
    Y = ctx.tt('y', ns, r)
    A = teneva.func_int(Y, kind)
    Z = teneva.func_gets(A, None, kind)
    ctx.claim('resampling_inverts_transform', ctx.all_([ctx.all_eq(Z[k], Y[k]) for k in range(len(ns))]))
    al = ctx.real('alpha')
    Y2 = [G.copy() for G in Y]
    W = ctx.array('w', Y[0].shape)
    Y2[0] = Y[0] * al + W
    A2 = teneva.func_int(Y2, kind)
    AW = teneva.func_int([W] + [G.copy() for G in Y[1:]], kind)
    ctx.claim('transform_linear_in_a_core', ctx.all_eq(A2[0], A[0] * al + AW[0]))


def h_diff_matrix(ctx, n, order):
    a = ctx.real('a')
    b = ctx.real('b')
    ctx.assume(ctx.lt(a, b))
    c = [ctx.real(f'c{i}') for i in range(n)]
    x = cheb_nodes(ctx, n, a, b)
    D = teneva.func_diff_matrix(a, b, n, m=order)
    Ds = [D] if order == 1 else D
    p = np.array([polyval(c, xi) for xi in x], dtype=x.dtype)
    dc = c
    for o in range(order):
        dc = polyder(dc)
        want = np.array([polyval(dc, xi) for xi in x], dtype=x.dtype)
        ctx.claim(f'derivative_order_{o + 1}', ctx.all_eq(Ds[o] @ p, want))


def h_full_vs_tt(ctx, ns, sym_box):
    """Dense routines agree with the TT routines (rank-1 polynomial)."""
    d = len(ns)
    if sym_box:
        # symmetric box [-h, h]
        h = vec(ctx, 'h', d)
        for k in range(d):
            ctx.assume(ctx.gt(h[k], 0))
        a, b = -h, h
    else:
        a = vec(ctx, 'a', d)
        b = vec(ctx, 'b', d)
        for k in range(d):
            ctx.assume(ctx.lt(a[k], b[k]))
    coef = [[ctx.real(f'c_{k}_{i}') for i in range(ns[k])] for k in range(d)]
    nodes = [cheb_nodes(ctx, ns[k], a[k], b[k]) for k in range(d)]
    Yf = zeros(ctx, tuple(ns))
    for idx in multi_indices(ns):
        p = 1
        for k in range(d):
            p = p * polyval(coef[k], nodes[k][idx[k]])
        Yf[idx] = p
    Af = teneva.func_int_full(Yf)
    x = vec(ctx, 'x', d)
    for k in range(d):
        ctx.assume(ctx.ge(x[k], a[k]))
        ctx.assume(ctx.le(x[k], b[k]))
    fx = 1
    for k in range(d):
        fx = fx * polyval(coef[k], x[k])
    yf = teneva.func_get_full(x.reshape(1, -1), Af, a, b)
    ctx.claim('dense_interpolant_equals_f', ctx.eq(yf[0], fx))
    yi = teneva.func_get_full(np.array([x, x]), Af, a, b, z=-1)
    ctx.claim('dense_interpolant_integer_fill_value', ctx.all_([ctx.eq(yi[0], fx), ctx.eq(yi[1], fx)]))
    if d >= 2:
        Y = [np.array([polyval(coef[k], nodes[k][j]) for j in range(ns[k])], dtype=Yf.dtype).reshape(1, -1, 1)
             for k in range(d)]
        A = teneva.func_int(Y)
        ctx.claim('dense_coefficients_equal_tt', ctx.all_eq(ref_full(A), Af))
    if d >= 2:
        # dense re-sampling on a grid with a different size per mode (not a palindrome)
        ms = [ns[k] + 1 + k for k in range(d)]
        Zf = teneva.func_gets_full(Af, a, b, ms)
        ctx.claim('dense_resampled_shape', tuple(Zf.shape) == tuple(ms))
        if tuple(Zf.shape) == tuple(ms):
            newn = [cheb_nodes(ctx, ms[k], a[k], b[k]) for k in range(d)]
            okr = []
            for idx in multi_indices(ms):
                p = 1
                for k in range(d):
                    p = p * polyval(coef[k], newn[k][idx[k]])
                okr.append(ctx.eq(Zf[idx], p))
            ctx.claim('dense_resampling_gives_f_at_new_nodes', ctx.all_(okr))
    exact = 1
    for k in range(d):
        exact = exact * polyint(ctx, coef[k], a[k], b[k])
    if sym_box:
        S = teneva.func_sum_full(Af, a, b)
        ctx.claim('dense_integral_exact', ctx.eq(S, exact))
        # the same coefficients in Fortran order / as a strided view
        ctx.claim('dense_integral_exact_fortran_order', ctx.eq(teneva.func_sum_full(np.asfortranarray(Af), a, b), exact))
        if d >= 2:
            big = np.empty(tuple(2 * k for k in Af.shape), dtype=Af.dtype)
            big[...] = Af.reshape(-1)[0] * 0
            view = big[tuple(slice(None, None, 2) for _ in range(d))]
            view[...] = Af
            ctx.claim('dense_integral_exact_strided', ctx.eq(teneva.func_sum_full(view, a, b), exact))
    else:
        ctx.assume(ctx.not_(ctx.eq(a[0] + b[0], 0)))
        ctx.assume(ctx.gt(abs(a[0] + b[0]), 1e-8))
        ctx.assume(ctx.gt(abs(a[0] - b[0]) if False else abs(abs(b[0]) - abs(a[0])), 1e-8))
        ctx.raises(ValueError, 'dense_sum_rejects_asymmetric_box', teneva.func_sum_full, Af, a, b)


def h_general(ctx, n, per_mode=False):
    """func_int_general with a basis containing f reproduces f (distinct nodes;
    per_mode: a different node set for every mode, given as a 2-D array)."""
    X = vec(ctx, 'x', n)
    for i in range(n - 1):
        ctx.assume(ctx.lt(X[i], X[i + 1]), 'distinct nodes')
    c = [ctx.real(f'c{i}') for i in range(n)]

    def basis(Xq):
        return teneva.func_basis(Xq, n)           # Chebyshev T_0..T_{n-1} of the raw point
    vals = np.array([polyval(c, xi) for xi in X], dtype=X.dtype)
    if per_mode:
        X2 = vec(ctx, 'u', n)
        for i in range(n - 1):
            ctx.assume(ctx.lt(X2[i], X2[i + 1]), 'distinct nodes')
        vals2 = np.array([polyval(c, xi) for xi in X2], dtype=X.dtype)
        Y = [vals.reshape(1, n, 1).copy(), vals2.reshape(1, n, 1).copy()]
        A = teneva.func_int_general(Y, np.array([list(X), list(X2)], dtype=X.dtype), basis)
    else:
        Y = [vals.reshape(1, n, 1).copy(), vals.reshape(1, n, 1).copy()]
        A = teneva.func_int_general(Y, X, basis)
    ctx.claim('coeff_shape', well_formed(A, [n, n]))
    xq = ctx.real('xq')
    Tq = teneva.func_basis(np.array([xq], dtype=X.dtype), n)[:, 0]
    for k in range(2):
        got = sum((A[k][0, i, 0] * Tq[i] for i in range(n)), 0)
        ctx.claim(f'span_function_reproduced_mode{k}', ctx.eq(got, polyval(c, xq)))
    if not per_mode:
        # the fitted coefficients evaluated through func_get with the same custom basis, on a box other
        # than [-1, 1]: the basis functions are functions of the raw coordinates
        xr = ctx.real('xr')
        for v in (xq, xr):
            ctx.assume(ctx.ge(v, -3))
            ctx.assume(ctx.le(v, 5))
        got = teneva.func_get(np.array([[xq, xr]], dtype=X.dtype), A, a=-3., b=5., funcs=basis)
        ctx.claim('custom_basis_evaluated_at_raw_points', ctx.eq(got[0], polyval(c, xq) * polyval(c, xr)))
        got1 = teneva.func_get(np.array([xq, xr], dtype=X.dtype), A, a=[-3., -3.], b=[5., 5.], funcs=[basis, basis])
        ctx.claim('custom_basis_single_point', ctx.eq(got1, polyval(c, xq) * polyval(c, xr)))


def instances(tier):
    out = []
    quick = tier == 'quick'
    cfg = [([2, 3], 1), ([3, 2], 2), ([4, 2], 1)] if quick else \
        [([2, 3], 1), ([3, 2], 2), ([4, 2], 1), ([3, 3], 2), ([5, 2], 1), ([2, 2, 3], 1), ([7, 2], 1)]
    for ns, rho in cfg:
        for where in ('inside', 'outside'):
            out.append({'func': 'h_tt_get', 'params': {'ns': ns, 'rho': rho, 'where': where}})
    # (equal old sizes with different new sizes included)
    for ns, rho, ms in ([([2, 3], 1, [3, 2]), ([3, 2], 2, [4, 3]), ([2, 2], 1, [3, 2]), ([3, 3], 1, [2, 4])] if quick else
                        [([2, 3], 1, [3, 2]), ([3, 2], 2, [4, 3]), ([4, 3], 1, [5, 2]), ([3, 3], 2, [5, 4]),
                         ([2, 2], 1, [3, 2]), ([3, 3], 1, [2, 4]), ([2, 2, 2], 1, [2, 3, 4])]):
        out.append({'func': 'h_tt_gets_sum', 'params': {'ns': ns, 'rho': rho, 'ms': ms}})
    for ns, r, kind in ([([3, 2], 2, 'cheb'), ([4, 3], 1, 'cheb'), ([2, 3], 2, 'sin'), ([4, 2], 1, 'sin')] if quick else
                        [([3, 2], 2, 'cheb'), ([4, 3], 2, 'cheb'), ([5, 4], 1, 'cheb'), ([7, 2], 1, 'cheb'),
                         ([2, 3], 2, 'sin'), ([4, 5], 1, 'sin')]):
        out.append({'func': 'h_inverse_linear', 'params': {'ns': ns, 'r': r, 'kind': kind}})
    for n, order in ([(2, 1), (3, 1), (3, 2), (4, 1)] if quick else [(2, 1), (3, 1), (3, 2), (4, 1), (4, 2), (5, 1), (7, 1)]):
        out.append({'func': 'h_diff_matrix', 'params': {'n': n, 'order': order}})
    for ns, sb in ([([3], True), ([2, 3], True), ([3], False), ([2, 2], False), ([2, 3, 2], True)] if quick else
                   [([3], True), ([2, 3], True), ([3], False), ([2, 2], False), ([2, 3, 2], True), ([4, 3], True), ([3, 3], False), ([3, 2, 4], True)]):
        out.append({'func': 'h_full_vs_tt', 'params': {'ns': ns, 'sym_box': sb}})
    for n in ([2, 3] if quick else [2, 3, 4]):
        out.append({'func': 'h_general', 'params': {'n': n}})
    out.append({'func': 'h_general', 'params': {'n': 2, 'per_mode': True}})
    return out


BOUNDS = {
    'quick': 'TT routines d=2 with grid sizes in {2,3,4} (exact algebraic cosines), TT-rank <= 2, symbolic box, coefficients, '
             'evaluation point (inside / outside) and fill value, batches mixing inside points with points above / below the box; resampling to other grid sizes; exact integrals; '
             'differentiation matrices n<=4, orders 1-2; dense routines d<=2 (symmetric and asymmetric boxes); '
             'func_int_general with n<=3 distinct symbolic nodes; transform/resampling inverse for arbitrary cores (cheb, sin)',
    'thorough': 'adds grid sizes 5 and 7, d=3, n=4 general',
}
OUTSIDE = 'grid sizes whose cosines have no closed form modelled; aliasing for degree >= n; accuracy of cos in floats'
ASSUMPTIONS = ['DCT-I / DST-I / FFT replaced by their defining sums with exact algebraic cosines', 'exact real arithmetic',
               'least squares solved exactly (normal equations / Cramer) for full-column-rank systems']
