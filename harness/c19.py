"""C19 - explicit constructors build exactly the tensor they describe."""
import itertools
import numpy as np
from fractions import Fraction
import teneva
from harness.common import *
from symtt.ref import ref_full, ref_get, well_formed, multi_indices


def h_const(ctx, n, zeros_, keep, as_arrays=False):
    v = ctx.real('v')
    d = len(n)
    if as_arrays and zeros_ is not None:
        # index lists given as integer ndarrays (every element access yields a fresh NumPy integer)
        Y = teneva.const(np.array(n), v, I_zero=np.array(zeros_), i_non_zero=None if keep is None else np.array(keep))
    elif zeros_ is None:
        Y = teneva.const(n, v)
    else:
        Y = teneva.const(n, v, I_zero=zeros_, i_non_zero=keep)
    ctx.claim('well_formed', well_formed(Y, n))
    ctx.claim('rank_one', all(G.shape[0] == 1 and G.shape[2] == 1 for G in Y))
    ctx.claim('finite', finite(ctx, Y))
    F = ref_full(Y)
    if zeros_ is None:
        ctx.claim('equals_v_everywhere', ctx.all_([ctx.eq(F[i], v) for i in multi_indices(n)]))
    else:
        ctx.claim('values_v_or_zero', ctx.all_([ctx.any_([ctx.eq(F[i], v), ctx.eq(F[i], 0)])
                                                for i in multi_indices(n)]))
        ctx.claim('zero_at_listed', ctx.all_([ctx.eq(F[tuple(i)], 0) for i in zeros_]))
        if keep is not None:
            ctx.claim('v_at_protected', ctx.eq(F[tuple(keep)], v))
    ctx.canary('canary', ctx.eq(F[(0,) * d], v + 1))


def h_const_conflict(ctx, n, zeros_, keep):
    v = ctx.real('v')
    ctx.raises(ValueError, 'conflict_rejected', teneva.const, n, v, zeros_, keep)
    ctx.raises(ValueError, 'conflict_rejected_arrays', teneva.const, n, v, np.array(zeros_), np.array(keep))
    big = [[300 + k for k in zeros_[0]]]
    ctx.raises(ValueError, 'conflict_rejected_large_indices', teneva.const, [400] * len(n), v, big, [int(str(x)) for x in big[0]])


def h_delta(ctx, n, i):
    v = ctx.real('v')
    Y = teneva.delta(n, i, v)
    ctx.claim('well_formed', well_formed(Y, n))
    F = ref_full(Y)
    pos = tuple(k if k >= 0 else m + k for k, m in zip(i, n))
    ctx.claim('v_at_i', ctx.eq(F[pos], v))
    ctx.claim('zero_elsewhere', ctx.all_([ctx.eq(F[j], 0) for j in multi_indices(n) if j != pos]))
    ctx.claim('finite', finite(ctx, Y))


def h_delta_array_reuse(ctx):
    """The position given as an integer ndarray with negative entries, reused for a
    second tensor of another shape: both tensors have v at the position counted
    from the end of *their* shape, and the caller's array is not changed."""
    v = ctx.real('v')
    i = np.array([-1, -2, -1])
    i0 = i.copy()
    for n in ([3, 3, 2], [4, 5, 6], [2, 2, 2]):
        Y = teneva.delta(n, i, v)
        F = ref_full(Y)
        pos = tuple(int(k) if k >= 0 else m + int(k) for k, m in zip(i0, n))
        ctx.claim('v_at_i', ctx.eq(F[pos], v))
        ctx.claim('zero_elsewhere', ctx.all_([ctx.eq(F[j], 0) for j in multi_indices(n) if j != pos]))
    ctx.claim('position_array_untouched', bool(np.array_equal(i, i0)))


def h_vector_delta(ctx, q):
    """Symbolic integer position in [-2^q, 2^q): bits by forking."""
    i = ctx.integer('i')
    v = ctx.real('v')
    N = 1 << q
    ctx.assume(ctx.ge(i, -N))
    ctx.assume(ctx.lt(i, N))
    Y = teneva.vector_delta(q, i, v)
    ctx.claim('well_formed', well_formed(Y, [2] * q))
    F = ref_full(Y)
    nz = [j for j in multi_indices([2] * q) if not (isinstance(F[j], (int, float)) and F[j] == 0)
          and not _is_zero(F[j])]
    ctx.claim('single_nonzero', len(nz) == 1)
    if len(nz) == 1:
        bits = nz[0]
        pos = sum(b << k for k, b in enumerate(bits))        # little endian
        ctx.claim('position', ctx.any_([ctx.eq(i, pos), ctx.eq(i, pos - N)]))
        ctx.claim('position_sign', ctx.any_([ctx.all_([ctx.ge(i, 0), ctx.eq(i, pos)]),
                                             ctx.all_([ctx.lt(i, 0), ctx.eq(i + N, pos)])]))
        ctx.claim('value', ctx.eq(F[nz[0]], v))


def h_concrete_delta_large_q(ctx):
    """QTT delta vector / matrix beyond the quantisation levels of the symbolic
    instances (q = 9 .. 12, positions above 255 and their negative
    counterparts; real code): v at the position, zero elsewhere."""
    ok = True
    for q in (9, 10, 12):
        N = 1 << q
        for i in (0, 255, 256, 257, 300, N // 2 + 5, N - 1, -1, -256, -257, -N):
            Y = teneva.vector_delta(q, i, 2.5)
            F = teneva.full(Y).reshape(-1, order='F')
            pos = i if i >= 0 else i + N
            ok = ok and F[pos] == 2.5 and int(np.count_nonzero(F)) == 1
    for q, i, j in ((9, 3, 300), (9, 256, 1), (10, -1, 513), (9, 511, -512)):
        N = 1 << q
        Y = teneva.matrix_delta(q, i, j, -1.5)
        bits = lambda t: [((t if t >= 0 else t + N) >> k) & 1 for k in range(q)]
        bi, bj = bits(i), bits(j)
        val = 1.
        tot = 1.
        for k in range(q):
            val *= Y[k][0, bi[k], bj[k], 0]
            tot *= np.abs(Y[k]).sum()
        ok = ok and val == -1.5 and abs(tot - 1.5) < 1e-12
    ctx.claim('delta_at_positions_beyond_one_byte', bool(ok))


def _is_zero(x):
    try:
        return x.const_value() == 0
    except AttributeError:
        return x == 0


def h_delta_sequences(ctx):
    """QTT delta vectors / matrices built for the same positions at several
    quantisation levels in one process, levels going up and then down: every call
    gives v at its position only (no state carried between calls)."""
    v = ctx.real('v')
    ok = []
    for q in (2, 4, 3, 2, 1, 3):
        N = 1 << q
        for i in (5 % N, N - 1, -1, -N + 1 if N > 1 else 0, 3 % N):
            Y = teneva.vector_delta(q, i, v)
            F = ref_full(Y).reshape(-1, order='F')
            pos = i if i >= 0 else N + i
            ok.append(ctx.all_([ctx.eq(F[j], v if j == pos else 0) for j in range(N)]))
    ctx.claim('vector_delta_independent_of_earlier_calls', ctx.all_(ok))
    ok = []
    for q in (3, 2, 1, 2):
        N = 1 << q
        for (i, j) in ((N - 1, 1 % N), (-1, -N), (2 % N, N - 1)):
            Y = teneva.matrix_delta(q, i, j, v)
            M = teneva.full_matrix(Y)
            pi, pj = (i if i >= 0 else N + i), (j if j >= 0 else N + j)
            ok.append(ctx.all_([ctx.eq(M[a, b], v if (a, b) == (pi, pj) else 0) for a in range(N) for b in range(N)]))
    ctx.claim('matrix_delta_independent_of_earlier_calls', ctx.all_(ok))


def h_vector_delta_range(ctx, q):
    i = ctx.integer('i')
    N = 1 << q
    ctx.assume(ctx.any_([ctx.ge(i, N), ctx.lt(i, -N)]))
    ctx.raises(ValueError, 'out_of_range_rejected', teneva.vector_delta, q, i)


def h_matrix_delta(ctx, q):
    i = ctx.integer('i')
    j = ctx.integer('j')
    v = ctx.real('v')
    N = 1 << q
    for x in (i, j):
        ctx.assume(ctx.ge(x, -N))
        ctx.assume(ctx.lt(x, N))
    Y = teneva.matrix_delta(q, i, j, v)
    ctx.claim('shapes', len(Y) == q and all(G.shape == (1, 2, 2, 1) for G in Y))
    nz = []
    for rb in itertools.product((0, 1), repeat=q):
        for cb in itertools.product((0, 1), repeat=q):
            val = Y[0][0, rb[0], cb[0], 0]
            for k in range(1, q):
                val = val * Y[k][0, rb[k], cb[k], 0]
            if not _is_zero(val):
                nz.append((rb, cb, val))
    ctx.claim('single_nonzero', len(nz) == 1)
    if len(nz) == 1:
        rb, cb, val = nz[0]
        pi = sum(b << k for k, b in enumerate(rb))
        pj = sum(b << k for k, b in enumerate(cb))
        ctx.claim('row_position', ctx.any_([ctx.all_([ctx.ge(i, 0), ctx.eq(i, pi)]),
                                            ctx.all_([ctx.lt(i, 0), ctx.eq(i + N, pi)])]))
        ctx.claim('col_position', ctx.any_([ctx.all_([ctx.ge(j, 0), ctx.eq(j, pj)]),
                                            ctx.all_([ctx.lt(j, 0), ctx.eq(j + N, pj)])]))
        ctx.claim('value', ctx.eq(val, v))


def h_poly(ctx, n, power, scalar_shift, int_shift=None):
    d = len(n)
    scale = ctx.real('scale')
    if int_shift is not None:
        # integer shifts (list, or array of machine integers), negative or large powers:
        # the values are those of exact arithmetic, not of wrapped int64 arithmetic
        shift = np.array(int_shift, dtype=int) if scalar_shift == 'array' else \
            (int_shift[0] if scalar_shift == 'scalar' else list(int_shift))
        sh = [ctx.const(int(v)) for v in (int_shift if scalar_shift != 'scalar' else [int_shift[0]] * d)]
    elif scalar_shift is None:
        shift = vec(ctx, 'sh', d)
        sh = list(shift)
    else:
        shift = scalar_shift
        sh = [scalar_shift] * d
    Y = teneva.poly(n, shift=shift, power=power, scale=scale)
    ctx.claim('well_formed', well_formed(Y, n))
    F = ref_full(Y)
    ok = []
    for i in multi_indices(n):
        ex = sum(((i[k] + sh[k]) ** power for k in range(d)), ctx.const(0)) * scale
        ok.append(ctx.eq(F[i], ex))
    ctx.claim('polynomial_values', ctx.all_(ok))
    ctx.claim('finite', finite(ctx, Y))


def _rank_profile(n, r):
    d = len(n)
    return [1] + [int(r)] * (d - 1) + [1] if isinstance(r, (int, float)) else list(r)


def h_rand(ctx, kind, n, r, seed, ab=None):
    """Random constructors with the generator stub: shape, rank profile, every
    entry is a distinct draw of the requested distribution."""
    rp = _rank_profile(n, r)
    sym = is_sym(ctx)
    if sym:
        from symtt.stubs_rng import StubGenerator
    if kind == 'rand':
        # (ab: other legal ranges - an end point equal to zero, both end points of one sign, integer end points)
        a, b = ab if ab is not None else (-2., 3.)
        Y = teneva.rand(n, r, a, b, seed=seed)
    elif kind == 'rand_norm':
        Y = teneva.rand_norm(n, r, 1., 2., seed=seed)
        # a generator object whose standard-normal draws z are recorded: every entry is mean + deviation * z
        # for a draw z of its own (mean and deviation symbolic)
        from harness.c14 import _gen
        g = _gen(ctx, 'norm')
        mu = ctx.real('mu')
        sg = ctx.real('sg')
        ctx.assume(ctx.gt(sg, Fraction(1, 8)))
        ctx.assume(ctx.lt(sg, 8))
        ctx.assume(ctx.gt(mu, -8))
        ctx.assume(ctx.lt(mu, 8))
        Yg = teneva.rand_norm(n, r, mu, sg, seed=g)
        zs = [z for Z in getattr(g, 'zlog', []) for z in np.asarray(Z).reshape(-1)]
        es = [x for G in Yg for x in G.reshape(-1)]
        ctx.claim('one_standard_normal_draw_per_entry', len(zs) == len(es))
        if len(zs) == len(es):
            if sym:
                # (the order in which the cores consume the stream is not prescribed: match by variable)
                byvar = {z.vars()[0] if isinstance(z.vars(), (list, tuple)) else next(iter(z.vars())): z for z in zs}
                ok = []
                for x in es:
                    mine = [byvar[v] for v in x.vars() if v in byvar]
                    ok.append(ctx.eq(x, mu + sg * mine[0]) if len(mine) == 1 else False)
            else:
                left = sorted(float(z) for z in zs)
                got = sorted((float(x) - mu) / sg for x in es)
                ok = [ctx.close(a_, b_, 1e-9) for a_, b_ in zip(got, left)]
            ctx.claim('entries_are_mean_plus_deviation_times_standard_normal', ctx.all_(ok))
    elif kind == 'rand_stab':
        Y = teneva.rand_stab(n, r, 0.5, seed=seed)
        # a recording generator object: core k is the identity pattern in every slice plus noise times
        # the standard-normal draws made for it (symbolic noise level)
        from harness.c14 import _gen
        g = _gen(ctx, 'stab')
        ns = ctx.real('ns')
        ctx.assume(ctx.gt(ns, Fraction(1, 1024)))
        ctx.assume(ctx.lt(ns, Fraction(1, 8)))
        Yg = teneva.rand_stab(n, r, ns, seed=g)
        Zl = [np.asarray(Z) for Z in getattr(g, 'zlog', [])]
        ctx.claim('one_batch_of_draws_per_core', len(Zl) == len(Yg) and all(Z.shape == G.shape for Z, G in zip(Zl, Yg)))
        if len(Zl) == len(Yg) and all(Z.shape == G.shape for Z, G in zip(Zl, Yg)):
            ok = []
            for G, Z in zip(Yg, Zl):
                for idx in np.ndindex(*G.shape):
                    pat = 1 if idx[0] == idx[2] else 0
                    ok.append(ctx.eq(G[idx], pat + ns * Z[idx]) if sym else ctx.close(G[idx], pat + ns * float(Z[idx]), 1e-12))
            ctx.claim('ones_pattern_plus_noise_times_draw', ctx.all_(ok))
    ctx.claim('well_formed', well_formed(Y, n))
    ctx.claim('rank_profile', [1] + [G.shape[2] for G in Y] == rp)
    ctx.claim('finite', finite(ctx, Y))
    if kind == 'rand':
        ctx.claim('range', ctx.all_([ctx.ge(x, a) for G in Y for x in G.reshape(-1)] +
                                    [ctx.lt(x, b) for G in Y for x in G.reshape(-1)]))
    if sym:
        # every entry is its own draw: collect the variables
        seen = set()
        ok = True
        for k, G in enumerate(Y):
            for idx in np.ndindex(*G.shape):
                x = G[idx]
                if kind == 'rand_stab':
                    pat = 1 if idx[0] == idx[2] else 0
                    x = (x - pat) / 0.5
                elif kind == 'rand_norm':
                    x = (x - 1.) / 2.
                vs = x.vars()
                if len(vs) != 1 or x.n.total_degree() != 1 or len(x.n.t) != 1 or x.d:
                    ok = False
                    continue
                (vv,) = vs
                if vv in seen:
                    ok = False
                seen.add(vv)
        ctx.claim('entries_are_distinct_draws', ok)


def instances(tier):
    out = []
    quick = tier == 'quick'
    out.append({'func': 'h_const', 'params': {'n': [2, 2], 'zeros_': None, 'keep': None}})
    out.append({'func': 'h_const', 'params': {'n': [2, 3, 2], 'zeros_': None, 'keep': None}})
    shapes = [[2, 2], [2, 3], [2, 2, 2]] if quick else [[2, 2], [2, 3], [2, 2, 2], [3, 2, 2], [3, 3, 3]]
    for n in shapes:
        idx = multi_indices(n)
        lists = [[list(idx[0])], [list(idx[-1]), list(idx[0])], [list(idx[1]), list(idx[2]), list(idx[-1])]]
        if not quick:
            lists += [[list(i) for i in idx[:4]], [list(idx[0])] * 2]
        if len(n) >= 3:
            # a zero index that agrees with the protected index in one mode and differs in another mode of the same size
            lists.append([[1, 0, 1]])
        for zl in lists:
            keeps = [list(k) for k in idx if list(k) not in zl]
            for keep in [None] + keeps[:(2 if quick else 4)] + ([[0, 1, 0]] if len(n) >= 3 and [0, 1, 0] in keeps else []):
                out.append({'func': 'h_const', 'params': {'n': n, 'zeros_': zl, 'keep': keep}})
        out.append({'func': 'h_const_conflict', 'params': {'n': n, 'zeros_': [list(idx[1])], 'keep': list(idx[1])}})
    for n, i in [([2, 3], [1, 2]), ([2, 3], [-1, 0]), ([2, 2, 3], [0, -1, -2]), ([1, 2], [0, 1])]:
        out.append({'func': 'h_delta', 'params': {'n': n, 'i': i}})
    out.append({'func': 'h_delta_array_reuse', 'params': {}})
    out.append({'func': 'h_delta_sequences', 'params': {}})
    for n, zl, keep in [([3, 3, 3], [[1, 1, 0], [1, 1, 2]], [1, 1, 1]), ([2, 3], [[1, 0], [0, 2]], [1, 2]), ([2, 2], [[0, 1]], [1, 1])]:
        out.append({'func': 'h_const', 'params': {'n': n, 'zeros_': zl, 'keep': keep, 'as_arrays': True}})
    # several listed zeros that agree with the protected index in many modes (satisfiable requests)
    for n, zl, keep in [([3, 3, 3], [[1, 1, 0], [1, 1, 2]], [1, 1, 1]), ([2, 2, 2], [[1, 1, 0], [1, 0, 1], [0, 1, 1]], [1, 1, 1]),
                        ([3, 2], [[1, 0], [1, 1], [2, 1]], [0, 1])]:
        out.append({'func': 'h_const', 'params': {'n': n, 'zeros_': zl, 'keep': keep}})
    for q in ([1, 2, 3] if quick else [1, 2, 3, 4, 5, 6]):
        out.append({'func': 'h_vector_delta', 'params': {'q': q}})
        out.append({'func': 'h_vector_delta_range', 'params': {'q': q}})
    for q in ([1, 2] if quick else [1, 2, 3]):
        out.append({'func': 'h_matrix_delta', 'params': {'q': q}})
    for n in ([[2, 2], [2, 3, 2]] if quick else [[2, 2], [2, 3, 2], [3, 3], [2, 2, 2, 2]]):
        for power in (1, 2, 3):
            out.append({'func': 'h_poly', 'params': {'n': n, 'power': power, 'scalar_shift': None}})
        out.append({'func': 'h_poly', 'params': {'n': n, 'power': 2, 'scalar_shift': 1.5}})
    for kind in ('array', 'list', 'scalar'):
        # (values chosen so that float64 evaluates them exactly: constants are computed natively)
        out.append({'func': 'h_poly', 'params': {'n': [2, 2], 'power': -1, 'scalar_shift': kind, 'int_shift': [1, 1]}})
        out.append({'func': 'h_poly', 'params': {'n': [1, 1], 'power': 3, 'scalar_shift': kind, 'int_shift': [2 ** 31, -2 ** 22]}})
        # power 0 with a base that vanishes at one index (0^0 = 1: the tensor is the constant scale * d)
        out.append({'func': 'h_poly', 'params': {'n': [2, 3], 'power': 0, 'scalar_shift': kind, 'int_shift': [0, -2]}})
    out.append({'func': 'h_poly', 'params': {'n': [2, 2], 'power': 0, 'scalar_shift': 0.}})
    out.append({'func': 'h_poly', 'params': {'n': [2, 2], 'power': 0, 'scalar_shift': None}})
    out.append({'func': 'h_concrete_delta_large_q', 'params': {}, 'opts': {'concrete_only': True}})
    for kind in ('rand', 'rand_norm', 'rand_stab'):
        # (ranks above the mode sizes / above what the unfoldings support are requested profiles like any other)
        # (the last one: consecutive cores with the same rank pair and a growing mode size)
        for n, r in [([2, 3], 2), ([2, 2, 3], [1, 2, 3, 1]), ([3, 2, 2], 1), ([2, 2, 2], 3), ([2, 3], [1, 4, 1]),
                     ([2, 2, 3, 2], 2)]:
            out.append({'func': 'h_rand', 'params': {'kind': kind, 'n': n, 'r': r, 'seed': 7}})
    for ab in ([-1., 0.], [0., 2.], [-3., -1.], [-2, 0], [0.25, 0.5]):
        out.append({'func': 'h_rand', 'params': {'kind': 'rand', 'n': [2, 3], 'r': 2, 'seed': 7, 'ab': ab}})
    return out


BOUNDS = {
    'quick': 'const: shapes (2,2),(2,3) with zero lists of 1-3 indices and protected indices, symbolic v (all sign/size '
             'branches); delta incl. negative positions; vector_delta q<=3, matrix_delta q<=2 with symbolic integer positions '
             '(all of [-2^q, 2^q)); poly power 1..3 with symbolic shift/scale; random constructors through the generator stub (rand on [-2,3], [-1,0], [0,2], [-3,-1], integer [-2,0], [1/4,1/2])',
    'thorough': 'adds 3-D const shapes, q<=6 (vector) / q<=3 (matrix), larger poly shapes',
}
OUTSIDE = 'float step int(i/2) for q > 53 (separate QF_FP lemma); distributional quality of the generator; larger shapes'
ASSUMPTIONS = ['exact real arithmetic; abs(v)**(1/d) modelled as the non-negative d-th root',
               'numpy.random.Generator replaced by a stub whose draws are fresh symbols within the documented range']
