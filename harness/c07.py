"""C07 - TT-ALS descends, is optimal per core, and ignores sample order."""
import itertools
import sys
import numpy as np
import teneva
from harness.common import *
from symtt.ref import ref_full, ref_get, well_formed, multi_indices


class _acc_stub:
    """teneva.accuracy inside als is only used for the 'e' stop criterion; its
    own contract is C16/C01.  Here: an arbitrary non-negative value."""
    def __init__(self, ctx):
        self.ctx = ctx
        self.k = 0

    def __call__(self, Y1, Y2):
        if not is_sym(self.ctx):
            return self.real(Y1, Y2)
        self.k += 1
        v = self.ctx.real(f'acc_{self.k}')
        self.ctx.assume(v >= 0)
        return v


def _with_stubs(ctx, fn):
    if not is_sym(ctx):
        return fn()
    st = _acc_stub(ctx)
    saved = teneva.accuracy
    teneva.accuracy = st
    try:
        return fn()
    finally:
        teneva.accuracy = saved


def _objective(ctx, Y, I, y, w, lamb):
    J = 0
    for j, i in enumerate(I):
        r = ref_get(Y, i) - y[j]
        J = J + r * r * (w[j] if w is not None else 1)
    for G in Y:
        J = J + sumsq(G) * lamb
    return J


def _left_right(Y, i, k):
    """Vectors L (1 x r_k) and R (r_{k+1} x 1) around core k for multi-index i."""
    L = None
    for t in range(k):
        M = Y[t][:, i[t], :]
        L = M if L is None else L @ M
    R = None
    for t in range(len(Y) - 1, k, -1):
        M = Y[t][:, i[t], :]
        R = M if R is None else M @ R
    return L, R


def _gradient_zero(ctx, Y, I, y, w, lamb, k):
    """d J / d core_k == 0 (written out; independent of the code's assembly)."""
    G = Y[k]
    ok = []
    for a in range(G.shape[0]):
        for s in range(G.shape[1]):
            for b in range(G.shape[2]):
                g = G[a, s, b] * lamb
                for j, i in enumerate(I):
                    if i[k] != s:
                        continue
                    L, R = _left_right(Y, i, k)
                    la = 1 if L is None else L[0, a]
                    rb = 1 if R is None else R[b, 0]
                    g = g + (ref_get(Y, i) - y[j]) * la * rb * (w[j] if w is not None else 1)
                ok.append(ctx.eq(g, 0))
    return ctx.all_(ok)


def _setup(ctx, d, n, r, I, weighted):
    m = len(I)
    Y0 = ctx.tt('g', [n] * d, r)
    y = vec(ctx, 'y', m)
    lamb = ctx.real('lamb')
    ctx.assume(ctx.gt(lamb, 0))
    w = None
    if weighted:
        w = vec(ctx, 'w', m)
        for x in w:
            ctx.assume(ctx.gt(x, 0))
    return Y0, y, lamb, w


def h_sweeps(ctx, d, n, r, I, weighted, nswp):
    I = [tuple(i) for i in I]
    Y0, y, lamb, w = _setup(ctx, d, n, r, I, weighted)
    Y0c = [G.copy() for G in Y0]
    info = {}
    seen = []

    def cb(Yc, info_, opts):
        seen.append(([G.copy() for G in Yc], [M.copy() for M in opts['Yr']]))
    Y = _with_stubs(ctx, lambda: teneva.als(np.array(I), y, Y0, nswp=nswp, e=None, info=info, lamb=lamb, w=w, cb=cb))
    # what the next sweep starts from (equivalent to the a+b restart clause, at the cost of one sweep):
    # the right interface matrices handed to the callback are those of the current cores
    Yc, Yr = seen[-1]
    ok = []
    for k in range(d - 1):
        for j, i in enumerate(I):
            v = None
            for t in range(d - 1, k, -1):
                M = Yc[t][:, i[t], :]
                v = M if v is None else M @ v
            ok.append(ctx.all_eq(Yr[k][:, j], v[:, 0]))
    ctx.claim('right_interfaces_match_the_cores_after_the_sweep', ctx.all_(ok))
    ctx.claim('well_formed', well_formed(Y, [n] * d))
    ctx.claim('ranks_kept', [G.shape for G in Y] == [G.shape for G in Y0c])
    ctx.claim('finite', finite(ctx, Y))
    ctx.claim('info_nswp', info['nswp'] == nswp and info['stop'] == 'nswp')
    ctx.claim('initial_untouched', all(bool(ctx.all_eq(a, b)) for a, b in zip(Y0, Y0c)))
    # the core updated last (core 1) is the exact minimiser given the others
    ctx.claim('last_core_optimal', _gradient_zero(ctx, Y, I, y, w, lamb, 1))
    ctx.canary('canary', _gradient_zero(ctx, Y, I, y, w, lamb * 2, 1))


def h_descent(ctx, d, n, r, I, weighted):
    """Every core update is the exact minimiser of the objective restricted to
    that core, so J(old) - J(new) = sum_j w_j (A_j delta)^2 + lamb |delta|^2 >= 0
    (identity decided by the solver; the right side is a sum of squares)."""
    I = [tuple(i) for i in I]
    Y0, y, lamb, w = _setup(ctx, d, n, r, I, weighted)
    alsmod = sys.modules['teneva.als']
    real = alsmod._optimize_core
    trace = []

    def spy(Q, i, y_trn, Yl, Yr, lamb, w, update_sol=None):
        Qn = real(Q, i, y_trn, Yl, Yr, lamb, w, update_sol)
        trace.append((Q.copy(), Qn.copy(), Yl.copy(), Yr.copy(), np.array(i)))
        return Qn
    alsmod._optimize_core = spy
    try:
        Y = _with_stubs(ctx, lambda: teneva.als(np.array(I), y, Y0, nswp=1, e=None, lamb=lamb, w=w))
    finally:
        alsmod._optimize_core = real
    ctx.claim('updates_per_sweep', len(trace) == 2 * (d - 1))
    for (Qo, Qn, Yl, Yr, ii) in trace:
        # objective restricted to this core, before and after
        def slice_obj(Q):
            J = sumsq(Q) * lamb
            for j in range(len(I)):
                pred = Yl[j, :] @ Q[:, int(ii[j]), :] @ Yr[:, j]
                rr = pred - y[j]
                J = J + rr * rr * (w[j] if w is not None else 1)
            return J
        Jo, Jn = slice_obj(Qo), slice_obj(Qn)
        D = Qo - Qn
        sos = sumsq(D) * lamb
        for j in range(len(I)):
            t = Yl[j, :] @ D[:, int(ii[j]), :] @ Yr[:, j]
            sos = sos + t * t * (w[j] if w is not None else 1)
        ctx.claim('descent_identity', ctx.eq(Jo - Jn, sos))
    J0 = _objective(ctx, Y0, I, y, w, lamb)
    J1 = _objective(ctx, Y, I, y, w, lamb)
    if not is_sym(ctx):
        ctx.claim('objective_not_increased', ctx.le(J1, J0))


def h_core_update(ctx, idx, weighted):
    """One update of a rank-2 middle core (2, 2, 2) by als._optimize_core with fixed
    rational interface matrices and symbolic data, weights, lamb: every slice is the
    exact minimiser of sum_j w_j (A_j x - y_j)^2 + lamb |x|^2 (normal equations),
    also when a slice has fewer samples than unknowns."""
    m = len(idx)
    alsmod = sys.modules['teneva.als']
    Q = ctx.array('q', (2, 2, 2))
    Q0 = Q.copy()
    rat = lambda a, b: ctx.const(a) / b
    Yl = np.array([[rat(1 + (3 * j) % 5, 2), rat(-1 - (2 * j) % 3, 3)] for j in range(m)], dtype=Q.dtype)
    Yr = np.array([[rat(2 - j % 3, 1), rat(1 + (5 * j) % 4, 4)] for j in range(m)], dtype=Q.dtype).T.copy()
    y = vec(ctx, 'y', m)
    lamb = ctx.real('lamb')
    ctx.assume(ctx.gt(lamb, 0))
    w = None
    if weighted:
        w = vec(ctx, 'w', m)
        for x in w:
            ctx.assume(ctx.gt(x, 0))
    i = np.array(idx)
    Qn = alsmod._optimize_core(Q, i, y, Yl, Yr, lamb=lamb, w=w)
    ctx.claim('argument_untouched', ctx.all_eq(Q, Q0))
    ok = []
    for k in range(2):
        js = [j for j in range(m) if idx[j] == k]
        if not js:
            ok.append(ctx.all_eq(Qn[:, k, :], Q0[:, k, :]))
            continue
        for a in range(2):
            for b in range(2):
                g = Qn[a, k, b] * lamb
                for j in js:
                    pred = sum((Yl[j, a2] * Qn[a2, k, b2] * Yr[b2, j] for a2 in range(2) for b2 in range(2)), 0)
                    g = g + (pred - y[j]) * Yl[j, a] * Yr[b, j] * (w[j] if w is not None else 1)
                ok.append(ctx.eq(g, 0))
    ctx.claim('slices_are_ridge_minimisers', ctx.all_(ok))


class _skel_stub:
    """teneva.matrix_skeleton through the part of its contract (C02/C03) the
    rank-adaptive mode relies on: factors (m x k), (k x n) with a
    nondeterministically chosen rank 1 <= k <= min(cap, m, n); the factor
    entries are arbitrary (the truncation error is not constrained), except
    that a full-rank result reproduces the matrix."""
    def __init__(self, ctx):
        self.ctx = ctx
        self.k = 0
        self.ranks = []
        self.caps = []

    def __call__(self, A, e=1.E-10, r=1.E+12, hermitian=False, rel=False, give_to='m'):
        ctx = self.ctx
        self.k += 1
        m, n = A.shape
        cap = min(int(r), m, n)
        self.caps.append(int(r))
        if cap <= 1:
            kk = 1
        else:
            t = ctx.fresh_int(f'skel_rank{self.k}')
            ctx.assume(t >= 1)
            ctx.assume(t <= cap)
            kk = ctx.concretize_int(t)
        self.ranks.append(kk)
        if kk == min(m, n):
            if m <= n:
                return eye(ctx, m), A.copy()
            return A.copy(), eye(ctx, n)
        U = ctx.array(f'sku{self.k}', (m, kk))
        V = ctx.array(f'skv{self.k}', (kk, n))
        return U, V


def _swap_data(ctx):
    """Data of the tensor T[k1,k2,k3] = f[k2] h[k1,k3] (h well conditioned) on
    the full 2x2x2 grid and an initial tensor of ranks (2, 2) whose cores are
    generalised permutation matrices: the real code finds rank 2 for the
    unfolding (k1 | k2 k3) and rank 1 after exchanging the first two modes, so
    the mode swap really happens in the concrete twin."""
    f = vec(ctx, 'f', 2)
    h = mat(ctx, 'h', 2, 2)
    for v in list(f) + list(h.reshape(-1)):
        ctx.assume(ctx.ge(v, ctx.const(1) / 2))
        ctx.assume(ctx.le(v, 4))
    ctx.assume(ctx.ge(h[0, 0] * h[1, 1] - h[0, 1] * h[1, 0], 1))
    I = multi_indices([2, 2, 2])
    y = np.array([f[i[1]] * h[i[0], i[2]] for i in I], dtype=f.dtype)
    c = ctx.const
    z = c(0)
    o = c(1)
    Y0 = [np.array([[[o, o * 2], [o * 3, o]]], dtype=f.dtype).reshape(1, 2, 2),
          np.array([[[o, z], [z, z]], [[z, z], [z, o]]], dtype=f.dtype),
          np.array([[[o], [z]], [[z], [o]]], dtype=f.dtype)]
    return I, y, Y0


def h_adaptive(ctx, n, r0, r, r_add, I, allow_swap, nswp=1, structured=False):
    """Rank-adaptive mode, d = 3: ranks of the result are <= r, shapes are kept
    (up to the recorded mode rearrangement), info reports sweeps and stop
    reason, the caller's index array is not permuted.  matrix_skeleton is used
    through its rank contract (see _skel_stub); the concrete twin runs the real
    code."""
    d = 3
    lamb = ctx.real('lamb')
    ctx.assume(ctx.gt(lamb, 0))
    if structured:
        I, y, Y0 = _swap_data(ctx)
        ctx.assume(ctx.le(lamb, ctx.const(1) / 10 ** 6))
    else:
        I = [tuple(i) for i in I]
        Y0 = ctx.tt('g', [n] * d, r0)
        y = vec(ctx, 'y', len(I))
    m = len(I)
    Y0c = [G.copy() for G in Y0]
    Iarr = np.array(I)
    Icopy = Iarr.copy()
    info = {}
    alsmod = sys.modules['teneva.als']

    # the swap option reads the validation set at the end of every sweep
    I_vld = np.array([[0, 1, 1], [1, 0, 0]]) if allow_swap else None
    y_vld = vec(ctx, 'yv', 2) if allow_swap else None
    Ivc = None if I_vld is None else I_vld.copy()

    def run():
        return teneva.als(Iarr, y, Y0, nswp=nswp, e=None, info=info, lamb=lamb, r=r, r_add=r_add,
                          allow_swap=allow_swap, I_vld=I_vld, y_vld=y_vld)
    if is_sym(ctx):
        st = _skel_stub(ctx)
        saved = teneva.matrix_skeleton
        saved_q = alsmod._quality_of_decomp
        nq = [0]

        def quality(Q, V1, V2):
            # relative residual of a factorisation: some non-negative number
            nq[0] += 1
            v = ctx.real(f'qual_{nq[0]}')
            ctx.assume(v >= 0)
            return v
        teneva.matrix_skeleton = st
        alsmod._quality_of_decomp = quality
        try:
            Y = _with_stubs(ctx, run)
        finally:
            teneva.matrix_skeleton = saved
            alsmod._quality_of_decomp = saved_q
        ctx.claim('skeleton_called', st.k >= 2 * (d - 2) * nswp)
        ctx.claim('skeleton_caps_le_r', all(c <= r for c in st.caps))
    else:
        saved = teneva.matrix_skeleton
        caps = []

        def spy_skel(A, e=1.E-10, r=1.E+12, **kw):
            caps.append(int(r))
            return saved(A, e, r, **kw)
        teneva.matrix_skeleton = spy_skel
        try:
            Y = run()
        finally:
            teneva.matrix_skeleton = saved
        ctx.claim('skeleton_called', len(caps) >= 2 * (d - 2) * nswp)
        ctx.claim('skeleton_caps_le_r', all(c <= r for c in caps))
    perm = list(info['rearrange']) if allow_swap else list(range(d))
    ctx.claim('rearrange_is_permutation', sorted(int(p) for p in perm) == list(range(d)))
    ctx.claim('well_formed', well_formed(Y, [n] * d))
    ctx.claim('ranks_le_r', all(G.shape[2] <= r for G in Y[:-1]))
    ctx.claim('finite', finite(ctx, Y))
    ctx.claim('info_nswp', info['nswp'] == nswp and info['stop'] == 'nswp')
    ctx.claim('initial_untouched', all(bool(ctx.all_eq(a, b)) for a, b in zip(Y0, Y0c)))
    ctx.claim('index_array_untouched', bool(np.array_equal(Iarr, Icopy)))
    if allow_swap:
        ctx.claim('validation_indices_untouched', bool(np.array_equal(I_vld, Ivc)))


def h_split(ctx, d, n, r, I, weighted):
    """a+b sweeps == a sweeps then restart for b sweeps ((a,b) = (1,1))."""
    I = [tuple(i) for i in I]
    Y0, y, lamb, w = _setup(ctx, d, n, r, I, weighted)
    run = lambda Y, k: _with_stubs(ctx, lambda: teneva.als(np.array(I), y, Y, nswp=k, e=None, lamb=lamb, w=w))
    Y2 = run(Y0, 2)
    Y11 = run(run(Y0, 1), 1)
    ctx.claim('two_sweeps_equal_one_plus_one', all(bool(ctx.all_eq(a, b)) for a, b in zip(Y2, Y11)))


def h_permutation(ctx, d, n, r, I, perm, weighted):
    I = [tuple(i) for i in I]
    Y0, y, lamb, w = _setup(ctx, d, n, r, I, weighted)
    run = lambda II, yy, ww: _with_stubs(ctx, lambda: teneva.als(np.array(II), yy, Y0, nswp=1, e=None, lamb=lamb, w=ww))
    Ya = run(I, y, w)
    Ip = [I[p] for p in perm]
    yp = np.array([y[p] for p in perm], dtype=y.dtype)
    wp = None if w is None else np.array([w[p] for p in perm], dtype=y.dtype)
    Yb = run(Ip, yp, wp)
    ctx.claim('sample_order_irrelevant', all(bool(ctx.all_eq(a, b)) for a, b in zip(Ya, Yb)))


def h_missing_slice(ctx, d, n):
    Y0 = ctx.tt('g', [n] * d, 1)
    I = [tuple([0] * d), tuple([0] * (d - 1) + [1])]
    y = vec(ctx, 'y', 2)
    # (teneva.accuracy stubbed: an accepted call must not drag the stabilised norm into the run)
    _with_stubs(ctx, lambda: ctx.raises(ValueError, 'missing_slice_rejected', teneva.als, np.array(I), y, Y0, 1))
    Y = _with_stubs(ctx, lambda: teneva.als(np.array(I), y, Y0, nswp=1, e=None, allow_skip_cores=True))
    ctx.claim('allowed_skip_keeps_shape', well_formed(Y, [n] * d))
    ctx.claim('uncovered_slice_kept', ctx.all_eq(Y[0][:, 1, :], Y0[0][:, 1, :]))
    # a missing slice that is not the last one of its mode, explicitly allowed: the fit does not depend
    # on how the slices are labelled (relabelling mode 0 so that the uncovered slice is the last one)
    Im = [tuple([1] * d), tuple([1] * (d - 1) + [0])]
    Ir = [tuple([0] + list(i[1:])) for i in Im]
    Y0r = [G.copy() for G in Y0]
    Y0r[0] = Y0[0][:, ::-1, :].copy()
    Ya = _with_stubs(ctx, lambda: teneva.als(np.array(Im), y, Y0, nswp=1, e=None, allow_skip_cores=True))
    Yb = _with_stubs(ctx, lambda: teneva.als(np.array(Ir), y, Y0r, nswp=1, e=None, allow_skip_cores=True))
    ctx.claim('allowed_skip_independent_of_slice_labels', bool(ctx.all_eq(Ya[0], Yb[0][:, ::-1, :])) and
              all(bool(ctx.all_eq(a, b)) for a, b in zip(Ya[1:], Yb[1:])))
    ctx.claim('uncovered_first_slice_kept', ctx.all_eq(Ya[0][:, 0, :], Y0[0][:, 0, :]))
    I2 = [tuple([1] * d), tuple([1] * (d - 1) + [0])]
    _with_stubs(ctx, lambda: ctx.raises(ValueError, 'missing_first_slice_rejected', teneva.als, np.array(I2), y, Y0, 1))
    w = vec(ctx, 'w', 2)
    _with_stubs(ctx, lambda: ctx.raises(ValueError, 'missing_first_slice_rejected_weighted',
                                        lambda: teneva.als(np.array(I2), y, Y0, 1, lamb=None, w=w)))


def h_callback(ctx, d, n, I):
    """A callback returning True at (symbolic) sweep s stops right after it."""
    I = [tuple(i) for i in I]
    Y0, y, lamb, w = _setup(ctx, d, n, 1, I, False)
    s = ctx.integer('s')
    ctx.assume(ctx.ge(s, 1))
    nswp = 2
    seen = []

    def cb(Y, info, opts):
        seen.append(info['nswp'])
        return bool(ctx.eq(s, info['nswp']))
    info = {}
    Y = _with_stubs(ctx, lambda: teneva.als(np.array(I), y, Y0, nswp=nswp, e=None, info=info, lamb=lamb, cb=cb))
    ctx.claim('callback_called_every_sweep', seen == list(range(1, info['nswp'] + 1)))
    ctx.claim('stop_right_after_callback', ctx.any_([
        ctx.all_([ctx.eq(s, info['nswp']), info['stop'] == 'cb']),
        ctx.all_([ctx.gt(s, nswp), info['stop'] == 'nswp', info['nswp'] == nswp])]))
    ctx.claim('well_formed', well_formed(Y, [n] * d))
    # default info dictionary carries nothing over to the next call
    Ya = _with_stubs(ctx, lambda: teneva.als(np.array(I), y, Y0, nswp=1, e=None, lamb=lamb))
    Yb = _with_stubs(ctx, lambda: teneva.als(np.array(I), y, Y0, nswp=1, e=None, lamb=lamb, info={}))
    ctx.claim('default_info_carries_nothing_over', all(bool(ctx.all_eq(a, b)) for a, b in zip(Ya, Yb)))


def h_func(ctx, m, n, sym_points=False, fixed_cores=False, y_last=None, n_max=None, thr_pow=None, outside=False,
           custom_fh=False):
    """Functional version (als_func), d = 2, rank 1, Chebyshev basis of size n:
    every core update is the exact minimiser of the regularised objective over
    the retained degrees (spy on als_func._optimize_core), shape and ranks are
    kept unless trailing coefficients are (relatively) negligible."""
    d = 2
    if sym_points:
        X = mat(ctx, 'x', m, d)
        for v in X.reshape(-1):
            ctx.assume(ctx.ge(v, -1))
            ctx.assume(ctx.le(v, 1))
    else:
        pts = [[-0.5, 0.25], [0.75, -0.125], [0.125, 0.5]][:m]
        if outside:
            # training points outside the box [-1, 1]: the basis is evaluated at the clipped point,
            # as everywhere else in the library (func_get)
            pts = [[1.25, 0.25], [0.75, -1.5], [0.125, 0.5]][:m]
        X = np.array([[ctx.const(v) for v in row] for row in pts], dtype=object if is_sym(ctx) else float)
    y = vec(ctx, 'y', m)
    if y_last is not None:
        # every update is linear in y and the truncation test is relative: fixing the
        # last value (to 1, -1 and 0 in turn) loses nothing and removes a variable
        y[m - 1] = ctx.const(y_last)
    lamb = ctx.real('lamb')
    ctx.assume(ctx.gt(lamb, 0))
    if fixed_cores:
        # the first update overwrites core 0 and reads core 1 only: fixed rational
        # initial cores leave y and lamb as the symbolic data (cheap enough for the quick tier)
        A0 = [np.array([[[ctx.const(v)] for v in row]], dtype=object if is_sym(ctx) else float)
              for row in ([1, -2, 3][:n], [2, 1, -1][:n])]
    else:
        A0 = ctx.tt('g', [n] * d, 1)
    A0c = [G.copy() for G in A0]
    fmod = sys.modules['teneva.als_func']
    real = fmod._optimize_core
    trace = []
    stack = []
    thr = 1.E-6 if thr_pow is None else thr_pow

    def spy(Q, y_trn, Yl, Yr, Hk, n_max, thr_pow, lamb=None, update_sol=None):
        Qo = Q.copy()
        if stack:
            stack[-1]['child'] = Qo          # called by the truncation step of the enclosing update
        frame = {'child': None}
        stack.append(frame)
        try:
            nk = real(Q, y_trn, Yl, Yr, Hk, n_max, thr_pow, lamb=lamb, update_sol=update_sol)
        finally:
            stack.pop()
        if Q.shape[1] == Hk.shape[1]:
            trace.append((Qo, Q.copy(), Yl.copy(), Yr.copy(), Hk.copy(), nk))
        if frame['child'] is not None:
            # truncated: the trailing slice of this solution was negligible relative to
            # its largest entry (the child received the leading slices of that solution)
            last = [abs(v) for v in Q[:, -1, :].reshape(-1)]
            full = [abs(v) for v in frame['child'].reshape(-1)] + last
            ctx.claim('truncated_only_if_relatively_negligible',
                      ctx.lt(ctx.max_(last), ctx.max_(full) * ctx.const(thr)))
        return nk
    fmod._optimize_core = spy
    info = {}
    fkw = {}
    if custom_fh:
        # a different basis per mode, given as a list of callables: mode 0 uses (1, x), mode 1 uses (x, 1 + x^2)
        one = lambda x: x * 0 + 1
        fkw = {'fh': [lambda x: np.array([one(x), x]), lambda x: np.array([x, one(x) + x * x])]}
    try:
        Y = _with_stubs(ctx, lambda: teneva.als_func(X, y, A0, nswp=1, e=None, info=info, lamb=lamb, n_max=n_max, thr_pow=thr, **fkw))
    finally:
        fmod._optimize_core = real
    ctx.claim('well_formed', well_formed(Y, [G.shape[1] for G in Y]))
    ctx.claim('ranks_kept', all(G.shape[0] == H.shape[0] and G.shape[2] == H.shape[2] for G, H in zip(Y, A0c)))
    ctx.claim('mode_sizes_not_increased', all(G.shape[1] <= n for G in Y))
    ctx.claim('info_nswp', info['nswp'] == 1 and info['stop'] == 'nswp')
    ctx.claim('initial_untouched', all(bool(ctx.all_eq(a, b)) for a, b in zip(A0, A0c)))
    for (Qo, Qn, Yl, Yr, Hk, nk) in trace:
        nq = Qn.shape[1]
        if nk < nq:
            # truncated: the trailing slice was relatively negligible (below 1e-6 of the largest entry)
            continue

        def slice_obj(Q):
            J = sumsq(Q) * lamb
            for j in range(m):
                pred = sum((Yl[j, a] * Hk[j, s_] * Q[a, s_, b] * Yr[b, j]
                            for a in range(Q.shape[0]) for s_ in range(nq) for b in range(Q.shape[2])), 0)
                J = J + (pred - y[j]) * (pred - y[j])
            return J
        D = Qo - Qn
        sos = sumsq(D) * lamb
        for j in range(m):
            t = sum((Yl[j, a] * Hk[j, s_] * D[a, s_, b] * Yr[b, j]
                     for a in range(D.shape[0]) for s_ in range(nq) for b in range(D.shape[2])), 0)
            sos = sos + t * t
        ctx.claim('descent_identity_func', ctx.eq(slice_obj(Qo) - slice_obj(Qn), sos))
    if all(G.shape[1] == n for G in Y):
        ctx.claim('shape_kept_when_not_truncated', True)
    # the core updated last (core 1) minimises the objective given the *returned* core 0
    # (also when degrees were dropped on the way: the interfaces must follow the truncation)
    def cheb(x, kk):
        t0, t1 = 1, x
        out = [t0, t1]
        for _ in range(2, kk):
            t0, t1 = t1, 2 * x * t1 - t0
            out.append(t1)
        return out[:kk]
    n0, n1 = Y[0].shape[1], Y[1].shape[1]
    ok = []
    for s_ in range(n1):
        g = Y[1][0, s_, 0] * lamb
        for j in range(m):
            clip = (lambda v: v) if sym_points else (lambda v: ctx.const(max(-1., min(1., float(pts[j][v])))))
            T0, T1 = (cheb(X[j, 0], n0), cheb(X[j, 1], n1)) if sym_points else (cheb(clip(0), n0), cheb(clip(1), n1))
            if custom_fh:
                T0, T1 = [1, X[j, 0]][:n0], [X[j, 1], 1 + X[j, 1] * X[j, 1]][:n1]
            L = sum((Y[0][0, t, 0] * T0[t] for t in range(n0)), 0)
            pred = L * sum((Y[1][0, t, 0] * T1[t] for t in range(n1)), 0)
            g = g + (pred - y[j]) * L * T1[s_]
        ok.append(ctx.eq(g, 0))
    ctx.claim('last_core_optimal_given_returned_cores', ctx.all_(ok))


def h_concrete_custom_basis(ctx):
    """als_func with a list / tuple of different basis callables, one per mode
    (real code): with f_k = Chebyshev basis o g_k the fit must coincide with the
    default-basis fit on the transformed points (g_0(x_0), ..., g_{d-1}(x_{d-1})),
    sweep by sweep; a single callable and the same callable for every mode as well."""
    rng = np.random.default_rng(11)
    d, n, m = 3, 3, 40
    X = rng.uniform(-0.9, 0.9, size=(m, d))
    y = np.sin(X[:, 0]) + X[:, 1] * X[:, 2]
    A0 = teneva.rand([n] * d, 2, seed=5)
    g = [lambda x: x, lambda x: x * x, lambda x: -x]
    Xg = np.stack([g[k](X[:, k]) for k in range(d)], axis=1)
    ok = True
    for nswp in (1, 2):
        ref = teneva.als_func(Xg, y, A0, nswp=nswp, e=None, lamb=0.3, info={})
        for fh in ([(lambda x, k=k: teneva.func_basis(g[k](x), n)) for k in range(d)],
                   tuple((lambda x, k=k: teneva.func_basis(g[k](x), n)) for k in range(d))):
            got = teneva.als_func(X, y, A0, nswp=nswp, e=None, lamb=0.3, fh=fh, info={})
            ok = ok and all(a.shape == b.shape and np.allclose(a, b, rtol=1e-8, atol=1e-10) for a, b in zip(got, ref))
        ref1 = teneva.als_func(X, y, A0, nswp=nswp, e=None, lamb=0.3, info={})
        one = lambda x: teneva.func_basis(x, n)
        for fh in (one, [one] * d):
            got = teneva.als_func(X, y, A0, nswp=nswp, e=None, lamb=0.3, fh=fh, info={})
            ok = ok and all(np.allclose(a, b, rtol=1e-8, atol=1e-10) for a, b in zip(got, ref1))
    ctx.claim('per_mode_basis_callables_used_for_their_own_mode', bool(ok))
    # the dynamic search of the mode size (n_max above the stored size, left rank > 1: the trial
    # cores are then non-contiguous views): core 1, updated last, is the minimiser given the others
    lamb = 1e-3
    Xs = rng.uniform(-1., 1., size=(120, d))
    ys = np.sin(1.3 * Xs[:, 0] + 0.7 * Xs[:, 1] - Xs[:, 2]) + 0.5 * Xs[:, 1] * Xs[:, 2]
    okg = True
    for n_max in (None, n + 1, n + 4):
        for nswp in (1, 2):
            A = teneva.als_func(Xs, ys, A0, nswp=nswp, e=None, lamb=lamb, n_max=n_max, info={})
            nn = [G.shape[1] for G in A]
            T = teneva.func_basis(Xs, max(nn))
            H = [T[:nn[k], :, k].T for k in range(d)]
            L = np.einsum('jn,anb->jb', H[0], A[0])
            R = np.einsum('jn,anb->aj', H[2], A[2])
            M = np.einsum('ja,jn,bj->janb', L, H[1], R).reshape(len(ys), -1)
            g = A[1].reshape(-1)
            grad = -2. * M.T @ (ys - M @ g) + 2. * lamb * g
            scale = 2. * np.linalg.norm(M.T @ ys) + 2. * lamb * np.linalg.norm(g)
            okg = okg and bool(np.linalg.norm(grad) <= 1e-8 * scale) and [G.shape[0] for G in A] == [G.shape[0] for G in A0]
    ctx.claim('last_updated_core_is_minimiser_with_dynamic_mode_size', bool(okg))


def _layouts(d, n, m, limit=None):
    """All ordered m-tuples of multi-indices covering every slice of every mode."""
    idx = multi_indices([n] * d)
    out = []
    for tup in itertools.product(idx, repeat=m):
        if all(len(set(i[k] for i in tup)) == n for k in range(d)):
            out.append([list(i) for i in tup])
    return out if limit is None else out[:limit]


def instances(tier):
    out = []
    quick = tier == 'quick'
    lay2 = _layouts(2, 2, 2)                       # 4 layouts
    lay3 = _layouts(2, 2, 3)                       # 24 layouts incl. duplicates
    for I in lay2 + (lay3[::3] if quick else lay3):
        for r in (1, 2):
            for wt in (False, True):
                if quick and len(I) == 3 and (r == 2 or wt):
                    continue
                out.append({'func': 'h_sweeps', 'params': {'d': 2, 'n': 2, 'r': r, 'I': I, 'weighted': wt, 'nswp': 1},
                            'opts': {'generic_divisors': True}})
    # slices with two differently weighted samples and two unknowns per slice (rank 2)
    for I in [[[0, 0], [0, 1], [1, 0]], [[1, 1], [0, 1], [1, 0]]] if quick else []:
        out.append({'func': 'h_sweeps', 'params': {'d': 2, 'n': 2, 'r': 2, 'I': I, 'weighted': True, 'nswp': 1},
                    'opts': {'generic_divisors': True}})
    # one core update with fewer (differently weighted) samples in a slice than unknowns
    for idx in ([0, 0, 1], [0, 1, 0], [1, 1, 1, 0]):
        for wt in (True, False):
            out.append({'func': 'h_core_update', 'params': {'idx': idx, 'weighted': wt}, 'opts': {'generic_divisors': True}})
    for I in (_layouts(3, 2, 2)[:4] if quick else _layouts(3, 2, 2) + _layouts(3, 2, 3)[::7]):
        out.append({'func': 'h_sweeps', 'params': {'d': 3, 'n': 2, 'r': 1, 'I': I, 'weighted': False, 'nswp': 1},
                    'opts': {'generic_divisors': True}})
    for I in lay2[:2] + lay3[:2]:
        for wt in (False, True):
            out.append({'func': 'h_descent', 'params': {'d': 2, 'n': 2, 'r': 1, 'I': I, 'weighted': wt},
                        'opts': {'generic_divisors': True}})
    out.append({'func': 'h_split', 'params': {'d': 2, 'n': 2, 'r': 1, 'I': lay2[0], 'weighted': False},
                'opts': {'generic_divisors': True}})
    out.append({'func': 'h_split', 'params': {'d': 2, 'n': 2, 'r': 1, 'I': lay3[5], 'weighted': True},
                'opts': {'generic_divisors': True}})

    for I, perm in [(lay2[0], [1, 0]), (lay3[1], [2, 0, 1]), (lay3[7], [1, 2, 0])]:
        out.append({'func': 'h_permutation', 'params': {'d': 2, 'n': 2, 'r': 1, 'I': I, 'perm': perm, 'weighted': True},
                    'opts': {'generic_divisors': True}})
    # functional version: fixed rational points and initial cores, symbolic values and lamb
    for yl in (1, -1, 0):
        out.append({'func': 'h_func', 'params': {'m': 2, 'n': 2, 'fixed_cores': True, 'y_last': yl},
                    'opts': {'generic_divisors': True}})
    out.append({'func': 'h_func', 'params': {'m': 2, 'n': 2, 'fixed_cores': True, 'y_last': 1, 'n_max': 2},
                'opts': {'generic_divisors': True}})
    out.append({'func': 'h_func', 'params': {'m': 2, 'n': 2, 'fixed_cores': True, 'y_last': 1, 'outside': True},
                'opts': {'generic_divisors': True}})
    # a list of different basis callables, one per mode (the symbolic variant, h_func(custom_fh=True), exhausts its
    # budget with paths queued and is not registered)
    out.append({'func': 'h_concrete_custom_basis', 'params': {}, 'opts': {'concrete_only': True}})
    # a coarse truncation threshold: degrees are dropped for ordinary data
    out.append({'func': 'h_func', 'params': {'m': 2, 'n': 2, 'fixed_cores': True, 'y_last': 1, 'thr_pow': 0.5},
                'opts': {'generic_divisors': True}})
    if not quick:
        # symbolic initial cores / three samples: heavy (2x2 ridge systems with symbolic data, truncation forks)
        out.append({'func': 'h_func', 'params': {'m': 3, 'n': 2, 'fixed_cores': True, 'y_last': 1}, 'opts': {'generic_divisors': True}})
        out.append({'func': 'h_func', 'params': {'m': 2, 'n': 2, 'y_last': 1}, 'opts': {'generic_divisors': True}})
    # rank-adaptive mode (d = 3) around the rank contract of matrix_skeleton
    I4 = [[0, 0, 0], [1, 1, 1], [0, 1, 0], [1, 0, 1]]
    for (r, r_add, swap, nswp) in [(1, 1, False, 1), (2, 1, False, 1), (2, 0, False, 1), (2, 1, True, 1), (1, 2, True, 1),
                                   (2, 1, False, 2)]:
        out.append({'func': 'h_adaptive', 'params': {'n': 2, 'r0': 1, 'r': r, 'r_add': r_add, 'I': I4, 'allow_swap': swap,
                                                     'nswp': nswp}, 'opts': {'generic_divisors': True}})
    out.append({'func': 'h_adaptive', 'params': {'n': 2, 'r0': 2, 'r': 2, 'r_add': 0, 'I': None, 'allow_swap': True,
                                                 'structured': True}, 'opts': {'generic_divisors': True}})
    out.append({'func': 'h_missing_slice', 'params': {'d': 2, 'n': 2}, 'opts': {'generic_divisors': True}})
    out.append({'func': 'h_callback', 'params': {'d': 2, 'n': 2, 'I': lay2[0]}, 'opts': {'generic_divisors': True}})
    return out


BOUNDS = {
    'quick': 'index version, constant rank: d=2 n=2 ranks 1,2 with every ordered sample layout of size 2 (and a third of size 3, '
             'duplicates included), d=3 n=2 rank 1; symbolic values, weights > 0, initial cores, lamb > 0; one sweep for optimality, '
             'two for the split claim; callback at a symbolic sweep; rank-adaptive mode d=3 n=2 with caps r in {1,2}, r_add in '
             '{0,1,2}, with and without allow_swap, every rank outcome of the truncations',
    'thorough': 'all size-3 layouts, more d=3 layouts',
}
OUTSIDE = ('rank-adaptive mode beyond d=3, n=2, initial ranks 1 (2 for the structured swap instance), two sweeps; the values '
           'the adaptive mode returns (its truncation error is that of matrix_skeleton, C02/C03); update_sol; als_func beyond d=2, rank 1, n=2 and its n_max growth; more sweeps / '
           'larger data; the ridge system determinant is a generic divisor (positive definite for lamb > 0)')
ASSUMPTIONS = ['least squares solved exactly (Cramer)', 'rank-adaptive mode: matrix_skeleton replaced by its rank contract (any rank '
               '1..min(cap, m, n), arbitrary factors, exact when full rank) and als._quality_of_decomp by an arbitrary non-negative '
               'number; the concrete twin runs the real routines', 'teneva.accuracy inside als replaced by an arbitrary non-negative value '
               '(only feeds the e-stop criterion; e=None in the harness)', 'exact real arithmetic']
