"""C15 - optimum search returns true tensor entries and is exact when nothing is pruned."""
import itertools
import numpy as np
import teneva
from harness.common import *
from harness.c04 import rF
from symtt.ref import ref_full, ref_get, well_formed, multi_indices


def _orth_form(ctx, n, r, l2r=True, fixed_q=False):
    """Tensor given in right-orthogonal form: cores 1..d-1 have orthonormal rows
    (Householder frames), core 0 is free.  Every tensor has such a
    representation (C04); the RQ of an orthonormal-row matrix is (I, Q), which
    is registered, so the search is explored for all values of the free core
    and all orthonormal frames."""
    d = len(n)
    rk = [1] + [r] * (d - 1) + [1]
    Y = [ctx.array('g0', (1, n[0], rk[1]))]
    for k in range(1, d):
        cols = n[k] * rk[k + 1]
        kk = rk[k]
        if kk > cols:
            raise NotImplementedError
        if fixed_q and kk == 2 and cols == 2:
            # a fixed rational rotation: Y = G0 Q still ranges over every 2x2 tensor (quick tier)
            Q = np.array([[ctx.const(3) / 5, ctx.const(4) / 5], [ctx.const(-4) / 5, ctx.const(3) / 5]],
                         dtype=object if is_sym(ctx) else float)
        else:
            Q = householder_frame(ctx, f'q{k}', cols, kk).T      # kk x cols, orthonormal rows
        expect(ctx, 'rq', Q, (eye(ctx, kk), Q))
        Y.append(rF(Q, (kk, n[k], rk[k + 1])))
    return Y


def h_beam(ctx, n, r, k, fixed_q=False):
    Y = _orth_form(ctx, n, r, fixed_q=fixed_q)
    ctx.assume(ctx.gt(sumsq(Y[0]), 0), 'the tensor is not identically zero')
    F = ref_full(Y)
    Y0 = [G.copy() for G in Y]
    i = teneva.optima_tt_beam(Y, k, l2r=True)
    i = [int(x) for x in i]
    ctx.claim('index_in_bounds', len(i) == len(n) and all(0 <= i[t] < n[t] for t in range(len(n))))
    N = int(np.prod(n))
    if k >= N or r == 1:
        v = F[tuple(i)]
        ctx.claim('maximum_modulus_is_true', ctx.all_([ctx.ge(v * v, F[j] * F[j]) for j in multi_indices(n)]))
    I_all = teneva.optima_tt_beam(Y, k, l2r=True, ret_all=True)
    ctx.claim('ret_all_first_row_is_result', [int(x) for x in I_all[0]] == i)
    ctx.claim('ret_all_count', I_all.shape[0] == min(k, N) and I_all.shape[1] == len(n))
    ctx.claim('argument_untouched', all(bool(ctx.all_eq(a, b)) for a, b in zip(Y, Y0)))


def h_max(ctx, n, k):
    """optima_tt_max on a rank-1 tensor (both sweep directions)."""
    d = len(n)
    # rank-1: every core a vector; left-to-right uses RQ of the right cores,
    # right-to-left QR of the left cores: both registered on unit vectors
    Y = []
    for t in range(d):
        u = householder_frame(ctx, f'u{t}', n[t], 1)[:, 0]       # unit vector
        s = ctx.real(f's{t}')
        ctx.assume(ctx.gt(s, 0))
        row = (u * s).reshape(1, n[t])
        one = eye(ctx, 1)
        S = one * s
        expect(ctx, 'rq', row, (S, u.reshape(1, n[t]).copy()))
        expect(ctx, 'qr', row.T.copy(), (u.reshape(n[t], 1).copy(), S))
        Y.append(row.reshape(1, n[t], 1))
    F = ref_full(Y)
    i, y = teneva.optima_tt_max(Y, k)
    i = [int(x) for x in i]
    ctx.claim('index_in_bounds', all(0 <= i[t] < n[t] for t in range(d)))
    ctx.claim('value_is_entry', ctx.eq(y, F[tuple(i)]))
    ctx.claim('maximum_modulus_is_true', ctx.all_([ctx.ge(y * y, F[j] * F[j]) for j in multi_indices(n)]))


def instances(tier):
    out = []
    quick = tier == 'quick'
    G = {'symbolic_signs': False}
    for n, r, k, fq in ([([2, 2], 1, 1, False), ([2, 2], 2, 4, True), ([2, 2], 2, 1, True)] if quick else
                        [([2, 2], 1, 1, False), ([2, 2], 2, 4, True), ([2, 2], 2, 4, False), ([2, 2], 2, 1, False),
                         ([2, 3], 2, 6, False), ([2, 2, 2], 1, 1, False), ([2, 2, 2], 1, 2, False)]):
        out.append({'func': 'h_beam', 'params': {'n': n, 'r': r, 'k': k, 'fixed_q': fq}, 'opts': G})
    for n, k in ([] if quick else [([2, 2], 1), ([2, 2], 2), ([2, 2, 2], 1)]):
        out.append({'func': 'h_max', 'params': {'n': n, 'k': k}, 'opts': G})
    return out


BOUNDS = {
    'quick': 'optima_tt_beam on 2x2 tensors in orthogonal form: rank 1 (Householder unit vector) with k=1; rank 2 with a fixed rational '
             'rotation as second core and a free first core (ranges over every 2x2 tensor) with k in {1, 4 = all}; symbolic values of '
             'any sign, ties via both fork directions',
    'thorough': 'adds symbolic Householder second core for rank 2, optima_tt_max on rank-1 tensors, 2x3 rank 2 with k=6, rank-1 d=3',
}
OUTSIDE = ('optima_tt (min/max through sub/mul of derived tensors: factorisations of Kronecker cores are not encodable), optima_qtt, '
           'optima_tt_maxvol, the functional variant (root completeness of a numerical eigenvalue solver); larger shapes '
           '(sorting N symbolic keys costs up to N! paths); the exactly zero tensor (q_max = 0)')
ASSUMPTIONS = ['tensor given in right-orthogonal form (assume-guarantee with C04/C16: orthogonalize returns such a form)',
               'stabilisation scale: E <= v < 2E', 'exact real arithmetic']
