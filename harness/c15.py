"""C15 - optimum search returns true tensor entries and is exact when nothing is pruned."""
import itertools
import numpy as np
import teneva
from harness.common import *
from harness.c04 import rF
from symtt.ref import ref_full, ref_get, well_formed, multi_indices


def _orth_form(ctx, n, r, l2r=True, fixed_q=False):
    """Tensor given in right-orthogonal form: cores 1..d-1 have orthonormal rows
    (Householder frames), core 0 is free.  Every tensor has such a
    representation (C04); the RQ of an orthonormal-row matrix is (I, Q), which
    is registered, so the search is explored for all values of the free core
    and all orthonormal frames."""
    d = len(n)
    rk = [1] + [r] * (d - 1) + [1]
    Y = [ctx.array('g0', (1, n[0], rk[1]))]
    for k in range(1, d):
        cols = n[k] * rk[k + 1]
        kk = rk[k]
        if kk > cols:
            raise NotImplementedError
        if fixed_q and kk == 2 and cols == 2:
            # a fixed rational rotation: Y = G0 Q still ranges over every 2x2 tensor (quick tier)
            Q = np.array([[ctx.const(3) / 5, ctx.const(4) / 5], [ctx.const(-4) / 5, ctx.const(3) / 5]],
                         dtype=object if is_sym(ctx) else float)
        else:
            Q = householder_frame(ctx, f'q{k}', cols, kk).T      # kk x cols, orthonormal rows
        expect(ctx, 'rq', Q, (eye(ctx, kk), Q))
        Y.append(rF(Q, (kk, n[k], rk[k + 1])))
    return Y


def h_beam(ctx, n, r, k, fixed_q=False):
    Y = _orth_form(ctx, n, r, fixed_q=fixed_q)
    ctx.assume(ctx.gt(sumsq(Y[0]), 0), 'the tensor is not identically zero')
    F = ref_full(Y)
    Y0 = [G.copy() for G in Y]
    i = teneva.optima_tt_beam(Y, k, l2r=True)
    i = [int(x) for x in i]
    ctx.claim('index_in_bounds', len(i) == len(n) and all(0 <= i[t] < n[t] for t in range(len(n))))
    N = int(np.prod(n))
    if k >= N or r == 1:
        v = F[tuple(i)]
        ctx.claim('maximum_modulus_is_true', ctx.all_([ctx.ge(v * v, F[j] * F[j]) for j in multi_indices(n)]))
    I_all = teneva.optima_tt_beam(Y, k, l2r=True, ret_all=True)
    ctx.claim('ret_all_first_row_is_result', [int(x) for x in I_all[0]] == i)
    ctx.claim('ret_all_count', I_all.shape[0] == min(k, N) and I_all.shape[1] == len(n))
    ctx.claim('argument_untouched', all(bool(ctx.all_eq(a, b)) for a, b in zip(Y, Y0)))


def h_max(ctx, n, k):
    """optima_tt_max on a rank-1 tensor (both sweep directions)."""
    d = len(n)
    # rank-1: every core a vector; left-to-right uses RQ of the right cores,
    # right-to-left QR of the left cores: both registered on unit vectors
    Y = []
    for t in range(d):
        u = householder_frame(ctx, f'u{t}', n[t], 1)[:, 0]       # unit vector
        s = ctx.real(f's{t}')
        ctx.assume(ctx.gt(s, 0))
        row = (u * s).reshape(1, n[t])
        one = eye(ctx, 1)
        S = one * s
        expect(ctx, 'rq', row, (S, u.reshape(1, n[t]).copy()))
        expect(ctx, 'qr', row.T.copy(), (u.reshape(n[t], 1).copy(), S))
        Y.append(row.reshape(1, n[t], 1))
    F = ref_full(Y)
    i, y = teneva.optima_tt_max(Y, k)
    i = [int(x) for x in i]
    ctx.claim('index_in_bounds', all(0 <= i[t] < n[t] for t in range(d)))
    ctx.claim('value_is_entry', ctx.eq(y, F[tuple(i)]))
    ctx.claim('maximum_modulus_is_true', ctx.all_([ctx.ge(y * y, F[j] * F[j]) for j in multi_indices(n)]))


def _cheb_val(coef, x):
    """sum_k coef[k] T_k(x) by the three-term recurrence."""
    t0, t1 = 1, x
    v = coef[0]
    for k in range(1, len(coef)):
        v = v + coef[k] * t1
        t0, t1 = t1, 2 * x * t1 - t0
    return v


def h_func_beam(ctx, n, k):
    """Functional variant on a rank-1 coefficient tensor: the returned point
    lies in the cube and the interpolant's modulus there is >= its modulus at
    an arbitrary (symbolic) point of the cube.  The last core is given as
    s * (unit vector) after the routine's sqrt(2) scaling of the zeroth
    coefficient, so that its RQ factorisation is the registered one."""
    d = len(n)
    sq2 = np.sqrt(ctx.const(2)) if is_sym(ctx) else np.sqrt(2.)
    if is_sym(ctx):
        sq2 = ctx.root(ctx.const(2), 2)
    A = [ctx.array('a0', (1, n[0], 1))]
    for t in range(1, d):
        u = householder_frame(ctx, f'u{t}', n[t], 1)[:, 0]
        s = ctx.real(f's{t}')
        ctx.assume(ctx.gt(s, 0))
        row = (u * s).reshape(1, n[t])
        expect(ctx, 'rq', row, (eye(ctx, 1) * s, u.reshape(1, n[t]).copy()))
        core = row.copy()
        core[0, 0] = core[0, 0] / sq2
        A.append(core.reshape(1, n[t], 1))
    ctx.assume(ctx.gt(sumsq(A[0]), 0), 'the interpolant is not identically zero')
    A0 = [G.copy() for G in A]
    x = teneva.optima_func_tt_beam(A, k)
    ctx.claim('point_shape', np.shape(x) == (d,))
    ctx.claim('point_in_cube', ctx.all_([ctx.all_([ctx.ge(v, -1), ctx.le(v, 1)]) for v in x]))
    z = vec(ctx, 'z', d)
    for v in z:
        ctx.assume(ctx.ge(v, -1))
        ctx.assume(ctx.le(v, 1))
    # rank 1: the interpolant is a product of univariate factors, and (not being
    # identically zero) its modulus is maximal iff every factor's modulus is
    for t in range(d):
        fx = _cheb_val(list(A0[t][0, :, 0]), x[t])
        fz = _cheb_val(list(A0[t][0, :, 0]), z[t])
        ctx.claim(f'maximum_modulus_factor_{t}', ctx.ge(fx * fx, fz * fz))
    ctx.claim('argument_untouched', all(bool(ctx.all_eq(a, b)) for a, b in zip(A, A0)))


def h_concrete_sign_ties(ctx):
    """Tensors whose maximal modulus is attained by entries of both signs (exact
    ties): optima_tt_max / optima_tt report values that are the entries at the
    reported indices, whichever sweep direction found them (real code, exact
    integer TT-representations [I, T, I])."""
    rng = np.random.default_rng(2)
    ok = True
    for trial in range(12):
        n2 = 2 if trial % 2 == 0 else 1
        T = rng.integers(-3, 4, size=(3, n2, 3)).astype(float)
        pos = [tuple(p) for p in rng.permutation(np.array(list(np.ndindex(3, n2, 3))))[:2]]
        T[pos[0]], T[pos[1]] = 5., -5.
        Y = [np.eye(3).reshape(1, 3, 3), T.copy(), np.eye(3).reshape(3, 3, 1)]
        for k in (1, 2, 100):
            i, y = teneva.optima_tt_max(Y, k)
            ok = ok and float(y) == float(teneva.get(Y, i)) and all(0 <= int(a) < b for a, b in zip(i, (3, n2, 3)))
            i_min, y_min, i_max, y_max = teneva.optima_tt(Y, k)
            ok = ok and abs(float(y_min) - float(teneva.get(Y, i_min))) <= 1e-9 and abs(float(y_max) - float(teneva.get(Y, i_max))) <= 1e-9
            ok = ok and y_min <= y_max
            if k == 100:
                ok = ok and abs(abs(float(y)) - 5.) <= 1e-9 and abs(y_min + 5.) <= 1e-9 and abs(y_max - 5.) <= 1e-9
    ctx.claim('values_are_entries_at_reported_indices', bool(ok))


def h_concrete_func_scales(ctx):
    """Functional variant on rank-1 coefficient tensors with 3-5 coefficients per
    mode (interior critical points) at overall scales 1e3 ... 1e-12: the modulus at
    the returned point is the maximum over a fine grid of the cube (real code; the
    root finder of higher-degree derivatives is not encodable)."""
    rng = np.random.default_rng(5)
    xs = np.linspace(-1., 1., 2001)
    ok_cube, ok_max = True, True
    for n in ([3, 3], [4, 3], [3, 5, 3]):
        for scale in (1e3, 1., 1e-4, 1e-9, 1e-12):
            A = [rng.normal(size=(1, k, 1)) for k in n]
            A[0] = A[0] * scale
            x = teneva.optima_func_tt_beam(A, 3)
            ok_cube = ok_cube and x.shape == (len(n),) and bool(np.all(np.abs(x) <= 1 + 1e-12))
            fx, fmax = 1., 1.
            for G, xi in zip(A, x):
                c = G[0, :, 0]
                fx *= abs(np.polynomial.chebyshev.chebval(xi, c))
                fmax *= np.max(np.abs(np.polynomial.chebyshev.chebval(xs, c)))
            ok_max = ok_max and fx >= fmax * (1 - 1e-6)
    # even factors whose modulus peaks in the centre (a derivative root exactly at 0)
    for A in ([np.array([1., 0., -0.8]).reshape(1, 3, 1), np.array([0.3, 1., 0.2]).reshape(1, 3, 1)],
              [np.array([1., 0., -0.8]).reshape(1, 3, 1), np.array([-1., 0., 0.9, 0., 0.05]).reshape(1, 5, 1)]):
        for k in (1, 3, 10):
            x = teneva.optima_func_tt_beam(A, k)
            ok_cube = ok_cube and bool(np.all(np.abs(x) <= 1.))
            fx, fmax = 1., 1.
            for G, xi in zip(A, x):
                fx *= abs(np.polynomial.chebyshev.chebval(xi, G[0, :, 0]))
                fmax *= np.max(np.abs(np.polynomial.chebyshev.chebval(xs, G[0, :, 0])))
            ok_max = ok_max and fx >= fmax * (1 - 1e-6)
    # critical points just outside the cube (the maximum over the cube is then at the nearest face)
    for cs in ([1 + 5e-5, 1.], [-1 - 2e-5, 0.3], [1 + 1e-6, -1 - 1e-6]):
        A = [np.array([10 - c * c - 0.5, 2 * c, -0.5]).reshape(1, 3, 1) for c in cs]
        x = teneva.optima_func_tt_beam(A, 3)
        ok_cube = ok_cube and bool(np.all(np.abs(x) <= 1.))
        fx, fmax = 1., 1.
        for G, xi in zip(A, x):
            fx *= abs(np.polynomial.chebyshev.chebval(min(1., max(-1., xi)), G[0, :, 0]))
            fmax *= np.max(np.abs(np.polynomial.chebyshev.chebval(xs, G[0, :, 0])))
        ok_max = ok_max and fx >= fmax * (1 - 1e-6)
    ctx.claim('point_in_cube', bool(ok_cube))
    ctx.claim('maximum_modulus_over_cube', bool(ok_max))


def _nondet_index(ctx, tag, n):
    """A nondeterministically chosen multi-index (every choice explored by forking)."""
    if not is_sym(ctx):
        return [0] * len(n)
    out = []
    for k, nk in enumerate(n):
        t = ctx.integer(f'{tag}_{k}')
        ctx.assume(t >= 0)
        ctx.assume(t < nk)
        out.append(ctx.concretize_int(t))
    return out


def h_optima_tt_order(ctx, n, r):
    """optima_tt around the contract of optima_tt_max (proved above: an index in
    bounds with the true entry as value, the maximum modulus only when nothing is
    pruned): whatever the two searches return, the reported pair is ordered, lies
    in bounds and carries true entries."""
    Y = ctx.tt('y', n, r)
    F = ref_full(Y)
    calls = []
    if is_sym(ctx):
        saved = teneva.optima_tt_max

        def stub(T, k=100):
            i = _nondet_index(ctx, f'pick{len(calls)}', n)
            calls.append(i)
            return np.array(i), ref_get(T, i)
        import sys
        omod = sys.modules['teneva.optima']
        real = omod.optima_tt_max
        omod.optima_tt_max = stub
        try:
            i_min, y_min, i_max, y_max = teneva.optima_tt(Y, 1)
        finally:
            omod.optima_tt_max = real
    else:
        i_min, y_min, i_max, y_max = teneva.optima_tt(Y, 1)
    i_min = [int(x) for x in i_min]
    i_max = [int(x) for x in i_max]
    ctx.claim('indices_in_bounds', all(0 <= a < b for a, b in zip(i_min + i_max, list(n) + list(n))))
    ctx.claim('values_are_entries', ctx.all_([ctx.eq(y_min, F[tuple(i_min)]), ctx.eq(y_max, F[tuple(i_max)])]))
    ctx.claim('min_not_above_max', ctx.le(y_min, y_max))


def h_optima_qtt_values(ctx, q):
    """optima_qtt around the contracts of tt_to_qtt (an approximation, possibly
    lossy) and optima_tt (indices in bounds, values = entries of ITS argument):
    the reported values are entries of the ORIGINAL tensor at the mapped-back
    indices, and the pair is ordered only as far as those entries are."""
    N = 1 << q
    d = 2
    Y = ctx.tt('y', [N] * d, 1)
    F = ref_full(Y)
    if is_sym(ctx):
        import sys
        omod = sys.modules['teneva.optima']
        Zq = ctx.tt('z', [2] * (d * q), 1)               # some QTT tensor (lossy conversion)
        saved_q = teneva.tt_to_qtt
        real_tt = omod.optima_tt

        def stub_tt(T, k=100):
            a = _nondet_index(ctx, 'qa', [2] * (d * q))
            b = _nondet_index(ctx, 'qb', [2] * (d * q))
            return np.array(a), ref_get(T, a), np.array(b), ref_get(T, b)
        teneva.tt_to_qtt = lambda T, e=1e-12, r=100: Zq
        omod.optima_tt = stub_tt
        try:
            i_min, y_min, i_max, y_max = teneva.optima_qtt(Y, 1, 1., 2)
        finally:
            teneva.tt_to_qtt = saved_q
            omod.optima_tt = real_tt
    else:
        i_min, y_min, i_max, y_max = teneva.optima_qtt(Y, 1, 1., 2)
    i_min = [int(x) for x in i_min]
    i_max = [int(x) for x in i_max]
    ctx.claim('indices_in_bounds', all(0 <= a < N for a in i_min + i_max))
    ctx.claim('values_are_entries_of_the_original', ctx.all_([ctx.eq(y_min, F[tuple(i_min)]),
                                                               ctx.eq(y_max, F[tuple(i_max)])]))


def h_concrete_pruned(ctx):
    """Clauses that hold for EVERY candidate count on inputs where pruning bites
    (real code, fixed inputs: the searches on derived tensors are not encodable):
    a fibre of moderate entries with a large slice norm plus an isolated spike,
    and quantised search under a lossy conversion."""
    ok_b = ok_v = ok_o = True
    for sgn in (1., -1.):
        for (n, spike) in [((5, 3, 5), 2.2), ((4, 4, 4), 1.7), ((6, 3, 4), 3.1)]:
            F = np.zeros(n)
            F[0, 0, :] = 1.
            F[:, 0, 0] = 1.
            F[1, 1, 1] = spike
            Y = teneva.svd(F * sgn, 1e-12)
            for k in (1, 2, 3):
                i1, y1, i2, y2 = teneva.optima_tt(Y, k)
                ok_b = ok_b and all(0 <= int(a) < b for a, b in zip(list(i1) + list(i2), n + n))
                ok_v = ok_v and abs(y1 - teneva.get(Y, i1)) < 1e-9 and abs(y2 - teneva.get(Y, i2)) < 1e-9
                ok_o = ok_o and y1 <= y2 + 1e-12
    ctx.claim('pruned_indices_in_bounds', ok_b)
    ctx.claim('pruned_values_are_entries', ok_v)
    ctx.claim('pruned_min_not_above_max', ok_o)
    okq = True
    for seed in range(4):
        Y = teneva.rand([8, 8, 8], 3, seed=seed)
        for (e, r) in [(1e-12, 100), (1e-12, 2), (1.0, 100)]:
            i1, y1, i2, y2 = teneva.optima_qtt(Y, 5, e, r)
            okq = okq and abs(y1 - teneva.get(Y, i1)) < 1e-9 and abs(y2 - teneva.get(Y, i2)) < 1e-9
            okq = okq and all(0 <= int(a) < 8 for a in list(i1) + list(i2)) and y1 <= y2 + 1e-12
    ctx.claim('quantised_values_are_entries_of_the_original', okq)


def h_concrete_full_beam_large(ctx):
    """k >= number of elements on tensors with more elements than any default
    candidate count (real code, fixed integer-valued inputs, sizes beyond the
    symbolic bound): the reported minimum, maximum and maximum modulus are the
    true ones also when the opposite optimum is isolated in a slice of small
    norm (bulk value, two fibres of a large value, one entry of the other
    sign where they cross)."""
    def rank1(vs):
        return [np.asarray(v, dtype=float).reshape(1, -1, 1) for v in vs]

    def build(n, s, lo, hi, bulk):
        o = np.ones(n)
        e = [np.eye(n)[s[k]] for k in range(3)]
        Y = rank1([bulk * o, o, o])
        Y = teneva.add(Y, rank1([(hi - bulk) * e[0], e[1], o]))
        Y = teneva.add(Y, rank1([(hi - bulk) * o, e[1], e[2]]))
        return teneva.add(Y, rank1([(lo - 2 * hi + bulk) * e[0], e[1], e[2]]))
    ok = True
    cases = [(build(12, (3, 7, 5), -3., 10., -1.), 12 ** 3), (build(12, (8, 2, 11), 3., -10., 1.), 12 ** 3),
             (build(12, (0, 0, 0), -3., 10., -1.), 2 * 12 ** 3), (build(6, (1, 4, 2), -3., 10., -1.), 6 ** 3)]
    rng = np.random.default_rng(3)
    for shape in ((6, 5, 4), (11, 10), (3, 4, 3, 4)):
        F = rng.integers(-9, 10, size=shape).astype(float)
        F[tuple(0 for _ in shape)] = 12.
        F[tuple(k - 1 for k in shape)] = -11.
        cases.append((teneva.svd(F, 1e-14), int(np.prod(shape))))
    for Y, k in cases:
        F = teneva.full(Y)
        i1, y1, i2, y2 = teneva.optima_tt(Y, k)
        ok = ok and abs(y1 - F.min()) <= 1e-8 and abs(y2 - F.max()) <= 1e-8
        ok = ok and abs(F[tuple(int(a) for a in i1)] - y1) <= 1e-8 and abs(F[tuple(int(a) for a in i2)] - y2) <= 1e-8
        im, ym = teneva.optima_tt_max(Y, k)
        ok = ok and abs(abs(ym) - np.abs(F).max()) <= 1e-8
    ctx.claim('full_beam_optima_are_true_beyond_default_candidate_count', bool(ok))
    # cores of integer dtype and of float32 (tables of counts, tensors loaded from single-precision files),
    # nothing pruned: the optima are the true ones; the beam also without the preparatory sweep
    okd = True
    rng = np.random.default_rng(8)
    for shape, r in (((3, 3, 3), 2), ((2, 4, 3), 2), ((4, 5), 3)):
        rk = [1] + [r] * (len(shape) - 1) + [1]
        for dtype in (np.int64, np.int32, np.float32):
            Yi = [rng.integers(-3, 4, size=(rk[k], shape[k], rk[k + 1])).astype(dtype) for k in range(len(shape))]
            Yi[0][0, 0, 0] = 3
            F = teneva.full([G.astype(float) for G in Yi])
            if np.abs(F).max() == 0:
                continue
            N = F.size
            for l2r in (True, False):
                for kw in ({}, {'to_orth': False}):
                    i = teneva.optima_tt_beam(Yi, N, l2r=l2r, **kw)
                    okd = okd and abs(abs(F[tuple(int(a) for a in i)]) - np.abs(F).max()) <= 1e-6
            i1, y1, i2, y2 = teneva.optima_tt(Yi, N)
            okd = okd and abs(y1 - F.min()) <= 1e-5 and abs(y2 - F.max()) <= 1e-5
            okd = okd and all(G.dtype == dtype for G in Yi)
    # (small integer tables on which a partial product cut to an integer changes the winner)
    for cores in ([[[[2, 1], [1, -1]]], [[[3], [-2]], [[-1], [-2]]]], [[[[0, -2], [1, 3]]], [[[1], [-3]], [[1], [0]]]],
                  [[[[1, -3], [-2, 1]]], [[[-2], [2]], [[2], [3]]]]):
        for dtype in (np.int64, np.int32):
            Yi = [np.array(G, dtype=dtype) for G in cores]
            F = teneva.full([G.astype(float) for G in Yi])
            for l2r in (True, False):
                for kw in ({}, {'to_orth': False}, {'to_orth': False, 'p': 0}):
                    i = teneva.optima_tt_beam(Yi, F.size, l2r=l2r, **kw)
                    okd = okd and abs(abs(F[tuple(int(a) for a in i)]) - np.abs(F).max()) <= 1e-9
    ctx.claim('full_beam_optima_true_for_integer_and_single_precision_cores', bool(okd))


RANK1_CASES = {
    'a': ([-4, -2, 5], [-1, -2], [-5, 6, 2]),
    'b': ([1, -3, 2], [2, 5, -4], [3, -1, 6]),
    'c': ([2, -1], [3, 4, -5], [1, -2]),
    'd': ([1, 2, 3, 4, 5, 6], [6, 5, 4, 3, 2, 1], [1, -2, 3, -4, 5, -6]),
    'e': ([-1, -2, -3], [-4, -5]),
    'f': ([0, 3, -2], [5, 0, 1], [2, 2, -7]),
    'g': ([1, 1, 1], [2, 2], [3, -3, 1]),
    'h': ([7, -2, 3, 1], [1, -6, 2, 2]),
    'i': ([2, 3], [2, 3], [2, 3], [-1, 4]),
}


def h_concrete_rank1_any_k(ctx):
    """"For every rank-1 tensor with any candidate count the reported
    maximum-modulus, minimum and maximum values are the true ones": fixed
    integer rank-1 tensors (mixed signs, zeros, ties, d = 2 .. 4, mode sizes up
    to 6), every k from 1 to the number of elements that prunes at some step
    plus k = all, both sweep directions (real code; the symbolic rank-1
    instances stop at 2 x 2 x 2 because pruning decisions fork on every pair of
    candidates).  One claim per tensor and candidate count."""
    for tag, vs in RANK1_CASES.items():
        Y = [np.array(v, dtype=float).reshape(1, -1, 1) for v in vs]
        F = teneva.full(Y)
        top = np.abs(F).max()
        for k in (1, 2, 3, 5, F.size):
            ok = True
            for l2r in (True, False):
                i = teneva.optima_tt_beam(Y, k, l2r=l2r)
                ok = ok and abs(abs(F[tuple(int(a) for a in i)]) - top) <= 1e-9
                I = teneva.optima_tt_beam(Y, k, l2r=l2r, ret_all=True)
                ok = ok and [int(a) for a in I[0]] == [int(a) for a in i] and I.shape[0] == min(k, F.size)
            im, ym = teneva.optima_tt_max(Y, k)
            ok = ok and abs(abs(ym) - top) <= 1e-9 and abs(F[tuple(int(a) for a in im)] - ym) <= 1e-9
            ctx.claim(f'rank1_maximum_modulus_true:{tag}:k={k}', bool(ok))
            i1, y1, i2, y2 = teneva.optima_tt(Y, k)
            ctx.claim(f'rank1_min_max_true:{tag}:k={k}', bool(abs(y1 - F.min()) <= 1e-9 and abs(y2 - F.max()) <= 1e-9))


def instances(tier):
    out = []
    quick = tier == 'quick'
    G = {'symbolic_signs': False}
    for n, r, k, fq in ([([2, 2], 1, 1, False), ([2, 2], 2, 4, True), ([2, 2], 2, 1, True)] if quick else
                        [([2, 2], 1, 1, False), ([2, 2], 2, 4, True), ([2, 2], 2, 4, False), ([2, 2], 2, 1, False),
                         ([2, 3], 2, 6, False), ([2, 2, 2], 1, 1, False), ([2, 2, 2], 1, 2, False)]):
        out.append({'func': 'h_beam', 'params': {'n': n, 'r': r, 'k': k, 'fixed_q': fq}, 'opts': G})
    out.append({'func': 'h_concrete_rank1_any_k', 'params': {}, 'opts': {'concrete_only': True}})
    out.append({'func': 'h_concrete_full_beam_large', 'params': {}, 'opts': {'concrete_only': True}})
    out.append({'func': 'h_concrete_pruned', 'params': {}, 'opts': {'concrete_only': True}})
    out.append({'func': 'h_concrete_func_scales', 'params': {}, 'opts': {'concrete_only': True}})
    out.append({'func': 'h_concrete_sign_ties', 'params': {}, 'opts': {'concrete_only': True}})
    out.append({'func': 'h_optima_tt_order', 'params': {'n': [2, 2], 'r': 1}, 'opts': {'symbolic_signs': False}})
    out.append({'func': 'h_optima_qtt_values', 'params': {'q': 1}, 'opts': {'symbolic_signs': False}})
    # functional variant, rank-1 coefficient tensors with two Chebyshev coefficients per mode
    for n, k in [([2, 2], 2), ([2, 2], 1)] + ([] if quick else [([2, 2], 3)]):
        out.append({'func': 'h_func_beam', 'params': {'n': n, 'k': k}, 'opts': {'generic_divisors': True}})
    if not quick:
        out.append({'func': 'h_optima_tt_order', 'params': {'n': [2, 3], 'r': 2}, 'opts': {'symbolic_signs': False}})
        out.append({'func': 'h_optima_qtt_values', 'params': {'q': 2}, 'opts': {'symbolic_signs': False}})
    for n, k in ([] if quick else [([2, 2], 1), ([2, 2], 2), ([2, 2, 2], 1)]):
        out.append({'func': 'h_max', 'params': {'n': n, 'k': k}, 'opts': G})
    return out


BOUNDS = {
    'quick': 'optima_tt_beam on 2x2 tensors in orthogonal form: rank 1 (Householder unit vector) with k=1; rank 2 with a fixed rational '
             'rotation as second core and a free first core (ranges over every 2x2 tensor) with k in {1, 4 = all}; symbolic values of '
             'any sign, ties via both fork directions',
    'thorough': 'adds symbolic Householder second core for rank 2, optima_tt_max on rank-1 tensors, 2x3 rank 2 with k=6, rank-1 d=3',
}
OUTSIDE = ('the searches inside optima_tt / optima_qtt on derived tensors (factorisations of Kronecker cores are not encodable: those two are checked around the contracts of optima_tt_max / tt_to_qtt / optima_tt), '
           'optima_tt_maxvol, the functional variant (root completeness of a numerical eigenvalue solver); larger shapes '
           '(sorting N symbolic keys costs up to N! paths); the exactly zero tensor (q_max = 0)')
ASSUMPTIONS = ['tensor given in right-orthogonal form (assume-guarantee with C04/C16: orthogonalize returns such a form)',
               'stabilisation scale: E <= v < 2E', 'exact real arithmetic']
