"""C10 - results depend only on arguments and seed, not on global state or history."""
import itertools
import numpy as np
import teneva
from harness.common import *
from harness.c04 import quasi_diag_tt
from symtt.ref import ref_full, multi_indices
from symtt.sym import Sym


def _flat(res):
    """Normalise a result (array / TT-tensor / tuple) to a list of arrays."""
    if isinstance(res, np.ndarray):
        return [res]
    if isinstance(res, (list, tuple)):
        out = []
        for x in res:
            out.extend(_flat(x))
        return out
    return [np.array([res])]


def _identical(ctx, A, B):
    if len(A) != len(B):
        return False
    if is_sym(ctx):
        return all(a.shape == b.shape and bool(ctx.all_eq(a, b)) for a, b in zip(A, B))
    return all(a.shape == b.shape and np.array_equal(a, b) for a, b in zip(A, B))


def _case(ctx, name):
    """Returns call(seed) for the named seeded function with fixed arguments."""
    if name in ('rand', 'rand_norm', 'rand_stab'):
        f = getattr(teneva, name)
        return lambda seed: f([2, 3, 2], [1, 2, 2, 1], seed=seed)
    if name == 'sample':
        Y = ctx.tt('y', [2, 2], 2)
        for G in Y:
            for x in G.reshape(-1):
                ctx.assume(ctx.gt(x, 0))
        return lambda seed: teneva.sample(Y, 1, seed=seed)
    if name == 'sample_lhs':
        return lambda seed: teneva.sample_lhs([2, 3], 3, seed=seed)
    if name == 'sample_rand':
        return lambda seed: teneva.sample_rand([2, 3], 1, seed=seed)
    if name == 'sample_rand_poi':
        return lambda seed: teneva.sample_rand_poi([-1., 0.], [1., 2.], 2, seed=seed)
    if name == 'sample_tt':
        return lambda seed: teneva.sample_tt([2, 2, 2], 2, seed=seed)
    if name in ('sample_square', 'sample_square_dup'):
        uniq = name == 'sample_square'
        if is_sym(ctx):
            Y, W = quasi_diag_tt(ctx, 2, 2)
            return lambda seed: teneva.sample_square(Y, 1, unique=uniq, seed=seed, m_fact=1)
        # concrete replay: enough distinct rows for an order dependence to show
        Y = [np.ones((1, 4, 2)), np.ones((2, 4, 1))]
        return lambda seed: teneva.sample_square(Y, 4, unique=uniq, seed=seed)
    if name == 'anova':
        I = np.array([[0, 0], [1, 1], [0, 1], [1, 0]])
        y = vec(ctx, 'y', 4)
        nz = ctx.real('nz')
        return lambda seed: teneva.anova(I, y, r=2, order=1, noise=nz, seed=seed)
    raise KeyError(name)


class _hash_spy:
    """Records calls of the builtin hash() made from teneva modules with an
    argument that contains a str / bytes (their hash is salted per interpreter
    process, so anything derived from it differs between runs)."""
    def __init__(self):
        self.salted = []

    def __enter__(self):
        import sys
        import builtins

        def contains_text(x):
            if isinstance(x, (str, bytes)):
                return True
            if isinstance(x, (tuple, frozenset)):
                return any(contains_text(e) for e in x)
            return False

        def spy(x):
            if contains_text(x):
                self.salted.append(repr(x)[:60])
            return builtins.hash(x)
        self.mods = [m for name, m in sys.modules.items() if name.startswith('teneva.') and m is not None]
        self.saved = [(m, m.__dict__.get('hash', None)) for m in self.mods]
        for m in self.mods:
            m.__dict__['hash'] = spy
        return self

    def __exit__(self, *a):
        for m, old in self.saved:
            if old is None:
                m.__dict__.pop('hash', None)
            else:
                m.__dict__['hash'] = old
        return False


def _history(ctx):
    """Unrelated library calls between two runs (must not influence them)."""
    teneva.rand([2, 2], 2, seed=99)
    teneva.sample_lhs([2, 2], 2, seed=5)
    teneva.const([2, 2], 3.)
    if not is_sym(ctx):
        np.random.seed(424242)
        np.random.rand(7)


def h_seeded(ctx, name):
    call = _case(ctx, name)
    with _hash_spy() as hs:
        call(7)
    ctx.claim('no_process_salted_hash_in_seeding', not hs.salted)
    if is_sym(ctx):
        from symtt.stubs_rng import StubGenerator, GlobalRNG
        n0 = len(ctx.rng_audit)
        try:
            r1 = _flat(call(7))
            _history(ctx)
            r2 = _flat(call(7))
            g = StubGenerator('obj')
            m0 = len(ctx.rng_audit)
            r3 = _flat(call(g))
        except GlobalRNG as e:
            ctx.fail('independent_of_global_generator', str(e))
            return
        aud = ctx.rng_audit[n0:]
        ctx.claim('independent_of_global_generator', not any(a[0] in ('global', 'unseeded_default_rng') for a in aud))
        ctx.claim('same_seed_same_result_after_other_calls', _identical(ctx, r1, r2))
        streams = {a[1] for a in ctx.rng_audit[m0:] if a[0] == 'draw'}
        ctx.claim('generator_object_is_the_only_source', streams <= {'obj'})
    else:
        np.random.seed(1)
        r1 = _flat(call(7))
        same = True
        for gs in (2, 3, 4, 5):
            _history(ctx)
            np.random.seed(gs)
            r2 = _flat(call(7))
            same = same and _identical(ctx, r1, r2)
        ctx.claim('independent_of_global_generator', same)
        ctx.claim('same_seed_same_result_after_other_calls', _identical(ctx, r1, r2))
        g1 = np.random.default_rng(3)
        g2 = np.random.default_rng(3)
        np.random.seed(5)
        a = _flat(call(g1))
        np.random.seed(6)
        b = _flat(call(g2))
        ctx.claim('generator_object_is_the_only_source', _identical(ctx, a, b) and
                  g1.bit_generator.state['state'] == g2.bit_generator.state['state'])


def h_restart_generator(ctx):
    """sample_square(unique=True) through its restart path (first batch with too
    few distinct rows, draws scripted): the repeated attempt keeps drawing from
    the generator it was given, no other source of randomness appears."""
    from harness.c14 import _gen
    Y, W = quasi_diag_tt(ctx, 2, 2)
    script = [0, 0, 0, 0] + [0, 0, 0, 0] + [0, 1, 0, 1] + [1, 1, 1, 1, 1, 1, 1, 1] * 4
    g = _gen(ctx, 'retry', script=script)
    n0 = len(ctx.rng_audit) if is_sym(ctx) else 0
    if is_sym(ctx):
        from symtt.stubs_rng import GlobalRNG
        try:
            I = teneva.sample_square(Y, 2, unique=True, seed=g, m_fact=1, max_rep=3)
        except GlobalRNG as e:
            ctx.fail('independent_of_global_generator', str(e))
            return
        aud = ctx.rng_audit[n0:]
        ctx.claim('independent_of_global_generator', not any(a[0] in ('global', 'unseeded_default_rng') for a in aud))
        ctx.claim('generator_object_is_the_only_source', {a[1] for a in aud if a[0] == 'draw'} <= {'retry'})
    else:
        I = teneva.sample_square(Y, 2, unique=True, seed=g, m_fact=1, max_rep=3)
    # first attempt: one batched draw for the first mode + 2 draws, second attempt: one + 4, all from the given generator
    ctx.claim('restart_draws_from_the_given_generator', len([e for e in g.log if e[0] == 'choice']) == 8)
    ctx.claim('shape', I.shape == (2, 2))


def h_repeatable(ctx, name):
    """Functions without randomness: repeated calls give identical results."""
    Y = ctx.tt('y', [2, 2], 2)
    Z = ctx.tt('z', [2, 2], 1)
    D = ctx.tt('d', [1, 2], 2) if 'dummy' in name else None
    calls = {
        'add': lambda: teneva.add(Y, Z), 'mul': lambda: teneva.mul(Y, Z), 'sub': lambda: teneva.sub(Y, Z),
        'full': lambda: teneva.full(Y), 'get': lambda: teneva.get(Y, [1, 0]), 'sum': lambda: teneva.sum(Y),
        'mul_scalar': lambda: teneva.mul_scalar(Y, Z), 'const': lambda: teneva.const([2, 2], 2.),
        'delta': lambda: teneva.delta([2, 3], [1, 2], 2.), 'poly': lambda: teneva.poly([2, 2], 1., 2),
        'grid_flat': lambda: teneva.grid_flat([2, 3]), 'interface': lambda: teneva.interface(Y, norm=None),
        'cache_to_data': lambda: teneva.cache_to_data({(0, 1): 2., (1, 1): 3.}),
        'func_diff_matrix': lambda: teneva.func_diff_matrix(-1., 2., 3, 2),
        'func_basis': lambda: teneva.func_basis(np.array([ctx.const(1) / 3, ctx.const(-1) / 2], dtype=Y[0].dtype), 3),
        'grid_prep_opts': lambda: teneva.grid_prep_opts(-1., 2., 3, 2),
        'matrix_delta': lambda: teneva.matrix_delta(2, 1, 2, 3.),
        'ind_tt_to_qtt': lambda: teneva.ind_tt_to_qtt(np.array([1, 2]), 4),
        # leading mode of size 1: single-row unfolding in the left sweep
        'orthogonalize_dummy': lambda: teneva.orthogonalize(D, 1),
        'orthogonalize_left_dummy': lambda: teneva.orthogonalize_left(D, 0),
        'truncate_dummy': lambda: teneva.truncate(D, 1.E-2),
        'grid_prep_opt': lambda: teneva.grid_prep_opt(3, 2, int),
        'ind_to_poi': lambda: teneva.ind_to_poi(np.array([[0, 1], [2, 0]]), -2., 3., 3),
        'poi_to_ind': lambda: teneva.poi_to_ind(np.array([[-1., 0.5]]), -2., 3., 3),
    }
    f = calls[name]
    first = _flat(f())
    a = [x.copy() for x in first]
    # the caller edits what it got back (a hidden cache shared with callers would show in the next call)
    for x in first:
        if x.size and x.flags.writeable:
            x[...] = x * 2 + 1
    _history(ctx)
    b = _flat(f())
    ctx.claim('repeated_call_identical', _identical(ctx, a, b))
    if name == 'cache_to_data':
        e1 = teneva.cache_to_data()
        e2 = teneva.cache_to_data()
        ctx.claim('default_cache_stays_empty', len(e1[0]) == 0 and len(e2[0]) == 0)


def h_symbolic_seed(ctx, name):
    """Every integer seed (symbolic, 0 included) selects a seeded stream: no
    fall-back to OS entropy or to the global generator."""
    call = _case(ctx, name)
    seed = ctx.integer('seed')
    ctx.assume(ctx.ge(seed, 0))
    ctx.assume(ctx.lt(seed, 2 ** 32))
    if is_sym(ctx):
        from symtt.stubs_rng import GlobalRNG
        n0 = len(ctx.rng_audit)
        try:
            r1 = _flat(call(seed))
            r2 = _flat(call(seed))
        except GlobalRNG as e:
            ctx.fail('integer_seed_is_honoured', str(e))
            return
        aud = ctx.rng_audit[n0:]
        ctx.claim('integer_seed_is_honoured', not any(a[0] in ('global', 'unseeded_default_rng') for a in aud))
        ctx.claim('same_seed_same_result', _identical(ctx, r1, r2))
    else:
        np.random.seed(1)
        r1 = _flat(call(int(seed)))
        np.random.seed(2)
        r2 = _flat(call(int(seed)))
        ctx.claim('integer_seed_is_honoured', _identical(ctx, r1, r2))
        ctx.claim('same_seed_same_result', _identical(ctx, r1, r2))


def h_anova_history(ctx):
    """An order-2 ANOVA model is not influenced by an earlier model built on other data."""
    from harness.c13 import _model
    I1 = [(0, 0), (1, 1), (0, 1), (1, 0)]
    I2 = [(1, 1), (0, 0), (1, 0), (1, 1)]
    y1 = vec(ctx, 'p', 4)
    y2 = vec(ctx, 'q', 4)
    teneva.ANOVA(np.array(I1), y1, order=2, seed=1)
    A = teneva.ANOVA(np.array(I2), y2, order=2, seed=1)
    f0, dom, f1, f2 = _model(I2, y2)
    ok = [ctx.eq(A.f0, f0)]
    num = 0
    for k1 in range(1):
        for k2 in range(1, 2):
            for x1 in dom[k1]:
                for x2 in dom[k2]:
                    ok.append(ctx.eq(A.f2[num][x1, x2], f2[k1, k2, x1, x2]))
            num += 1
    ctx.claim('second_model_independent_of_first', ctx.all_(ok))


def h_default_dicts(ctx, which):
    """Optional dictionaries left at their defaults carry nothing over (reuses the C06 / C07 set-ups)."""
    if which == 'cross':
        from harness.c06 import h_default_info
        h_default_info(ctx, [2, 2], 1)
    else:
        from harness.c07 import h_callback
        h_callback(ctx, 2, 2, [[0, 0], [1, 1]])


def h_concrete_seeded(ctx, case):
    """Seeded routines the engine cannot encode (QR of randomly extended cores,
    polynomial root finding): real code, same integer seed under different
    global generator states and call histories."""
    def runs(call):
        np.random.seed(1)
        a = _flat(call())
        same = True
        for gs in (2, 3):
            _history(ctx)
            np.random.seed(gs)
            same = same and _identical(ctx, a, _flat(call()))
        return same
    Y = teneva.rand([4, 4, 4], 2, seed=1)
    if case.startswith('cross_act'):
        dr, dr2 = {'cross_act_0': (0, 0), 'cross_act_1': (1, 0), 'cross_act_2': (1, 1), 'cross_act_3': (2, 2)}[case]
        X = [teneva.rand([4, 4, 4], 2, seed=2), teneva.rand([4, 4, 4], 1, seed=3)]
        f = lambda x: x[:, 0] * x[:, 1] + 1.
        call = lambda: teneva.cross_act(f, X, teneva.rand([4, 4, 4], 1, seed=4), nswp=2, dr=dr, dr2=dr2, seed=11)
    elif case == 'core_qr_rand':
        G = Y[1]
        call = lambda: [teneva.core_qr_rand(G, 2, True, 5), teneva.core_qr_rand(G, 1, False, 5)]
    elif case == 'sample_func':
        A = teneva.func_int(teneva.rand([4, 4], 1, seed=6))
        call = lambda: teneva.sample_func(A, seed=7)
    elif case == 'anova_sample':
        # ANOVA.sample draws from the generator of the model only, in every branch (all candidate
        # values positive / all non-positive or zero: the "probabilities are zeros" branch), for
        # an integer seed and for a generator object
        I = teneva.sample_lhs([3, 4, 3], 30, seed=2)
        base = np.sin(np.arange(30.)) + 2.

        def call():
            out = []
            for y in (base, -base, 0. * base):
                for order in (1, 2):
                    for sq in (False, True):
                        A = teneva.ANOVA(I, y, order, seed=5)
                        out.append(np.array([A.sample(with_square=sq) for _ in range(12)]))
                        B = teneva.ANOVA(I, y, order, seed=np.random.default_rng(3))
                        out.append(np.array([B.sample(with_square=sq) for _ in range(12)]))
            return out
    elif case == 'als_swap_fortran':
        # rank-adaptive als with allow_swap on index arrays in Fortran order (what sample_rand returns):
        # the same call repeated gives the same cores, and the caller's arrays are as they were
        n = [5, 5, 5]
        Am = np.random.default_rng(1).normal(size=(5, 5))
        f = lambda I: Am[I[:, 0], I[:, 2]] + 0.1 * np.sin(I[:, 1])     # modes 0 and 2 coupled: the real code swaps modes
        cols = np.meshgrid(*[np.arange(k) for k in n], indexing='ij')
        Itr = np.vstack([c.reshape(-1) for c in cols]).T                # (Fortran-ordered integer array)
        ytr = f(Itr)
        Ivl, yvl = Itr.copy(), ytr.copy()
        I0 = Itr.copy()
        Y0_ = teneva.rand(n, 2, seed=3)
        outs = []
        for rep in range(3):
            info = {}
            Y = teneva.als(Itr, ytr, Y0_, nswp=3, r=4, I_vld=Ivl, y_vld=yvl, allow_swap=True, info=info)
            outs.append(_flat(Y) + [np.asarray(info.get('rearrange'))])
        info = {}
        Yc = teneva.als(np.ascontiguousarray(I0), ytr, Y0_, nswp=3, r=4, I_vld=Ivl, y_vld=yvl, allow_swap=True, info=info)
        ok = all(_identical(ctx, outs[0], o) for o in outs[1:]) and _identical(ctx, outs[0][:-1], _flat(Yc))
        ok = ok and np.array_equal(Itr, I0) and Itr.flags['F_CONTIGUOUS']
        # (whether the implementation swaps modes on this data is its own business; the claim does not depend on it)
        ctx.claim('repeated_call_identical', bool(ok))
        return
    elif case == 'anova_fpath':
        # a saved model restored through anova(..., fpath=...): the noise entries of the cores come from
        # the seed given to THIS call (integer seed: identical cores; generator object: its next draws)
        import tempfile, shutil
        tmp = tempfile.mkdtemp(prefix='c10_anova_')
        try:
            I = teneva.sample_lhs([3, 4, 3], 30, seed=2)
            y = np.sin(np.arange(30.)) + 2.
            path = tmp + '/model.pickle'
            teneva.ANOVA(I, y, 1, seed=1).save(path)
            call = lambda: [teneva.anova(None, None, r=3, order=1, noise=0.5, seed=5, fpath=path),
                            teneva.anova(None, None, r=2, order=1, noise=0.5, seed=np.random.default_rng(9), fpath=path)]
            ok = runs(call)
            # the same cores as the model built from the data with that seed
            ref = teneva.anova(I, y, r=3, order=1, noise=0.5, seed=5)
            ok = ok and _identical(ctx, _flat(call()[0]), _flat(ref))
        finally:
            shutil.rmtree(tmp, ignore_errors=True)
        ctx.claim('same_seed_same_result_any_global_state', bool(ok))
        return
    elif case == 'als_func_repeat':
        # deterministic routine called twice with the very same objects (unregularised branch included)
        rng = np.random.default_rng(5)
        X = rng.uniform(-1, 1, size=(30, 2))
        y = np.sin(X[:, 0]) + X[:, 1] ** 2
        y0 = y.copy()
        A0 = teneva.rand([4, 4], 2, seed=3)
        ok = True
        for lamb in (None, 1e-3):
            a = teneva.als_func(X, y, A0, nswp=2, lamb=lamb)
            b = teneva.als_func(X, y, A0, nswp=2, lamb=lamb)
            ok = ok and _identical(ctx, _flat(a), _flat(b))
        # info left at its default with a convergence criterion in use: what the previous call
        # left in the shared dictionary (its last 'e', its stop reason) must not steer the next one
        for e_ in (0.5, 1e-1, 1e-3):
            fresh = {}
            a = teneva.als_func(X, y, A0, nswp=6, e=e_, info=fresh)
            teneva.als_func(X, y, A0, nswp=6, e=e_)
            b = teneva.als_func(X, y, A0, nswp=6, e=e_)
            i3 = {}
            c = teneva.als_func(X, y, A0, nswp=6, e=e_, info=i3)
            ok = ok and _identical(ctx, _flat(a), _flat(b)) and _identical(ctx, _flat(a), _flat(c))
            ok = ok and fresh['nswp'] == i3['nswp'] and fresh['stop'] == i3['stop']
        I = teneva.sample_lhs([4, 4, 4], 40, seed=1)
        yy = rng.normal(size=40)
        for kw in ({}, {'lamb': None}, {'lamb': None, 'w': np.ones(40)}, {'update_sol': 1e-2}, {'update_sol': 0.5, 'lamb': 1e-2}):
            Y0_ = teneva.rand([4, 4, 4], 2, seed=2)          # the same initial tensor object for both calls
            a = [G.copy() for G in teneva.als(I, yy, Y0_, nswp=2, **kw)]
            b = teneva.als(I, yy, Y0_, nswp=2, **kw)
            ok = ok and _identical(ctx, _flat(a), _flat(b))
        ctx.claim('repeated_call_identical', bool(ok) and np.array_equal(y, y0))
        return
    elif case == 'lhs_after_history':
        # shapes with a mode of size 1 after other calls have used (and released) memory blocks of the
        # same size: the result depends on the seed only (nothing is read from recycled memory)
        ok = True
        for n, m in (([1, 3], 3), ([2, 1, 3], 4), ([1, 1], 2)):
            ref = None
            for rep in range(6):
                for _ in range(20):                       # blocks of the result's byte size, filled and dropped
                    junk = np.full((m, len(n)), 7 + rep, dtype=int)
                    del junk
                I = teneva.sample_lhs(n, m, seed=11)
                ok = ok and all(0 <= int(I[t, k]) < n[k] for t in range(m) for k in range(len(n)))
                ref = I.copy() if ref is None else ref
                ok = ok and np.array_equal(I, ref)
            J, idx, idm = teneva.sample_tt(n, 2, seed=4)
            ok = ok and all(0 <= int(J[t, k]) < n[k] for t in range(J.shape[0]) for k in range(len(n)))
        ctx.claim('seeded_result_independent_of_memory_history', bool(ok))
        return
    elif case == 'sample_func_history':
        # the same list object with other contents / equal tensors in other objects: only the
        # values of the argument count, not its identity or what was passed before
        A = teneva.func_int(teneva.rand([4, 4], 1, seed=6))
        B = teneva.func_int(teneva.rand([4, 4], 1, seed=8))
        want_a = teneva.sample_func([G.copy() for G in A], seed=7)
        want_b = teneva.sample_func([G.copy() for G in B], seed=7)
        L = [G.copy() for G in A]
        got = [teneva.sample_func(L, seed=7)]
        for k in range(len(L)):
            L[k][...] = B[k]                     # cores edited in place
        got.append(teneva.sample_func(L, seed=7))
        L[0], L[1] = A[0].copy(), A[1].copy()    # cores replaced in the same list
        got.append(teneva.sample_func(L, seed=7))
        ok = np.array_equal(got[0], want_a) and np.array_equal(got[1], want_b) and np.array_equal(got[2], want_a)
        for t in range(8):                       # temporaries (address reuse)
            T_ = A if t % 2 == 0 else B
            ok = ok and np.array_equal(teneva.sample_func([G.copy() for G in T_], seed=7), want_a if t % 2 == 0 else want_b)
        ctx.claim('result_depends_on_argument_values_only', bool(ok))
        return
    ctx.claim('same_seed_same_result_any_global_state', runs(call))


def instances(tier):
    out = []
    for which in ('cross', 'als'):
        out.append({'func': 'h_default_dicts', 'params': {'which': which}, 'opts': {'generic_divisors': True}})
    for name in ('rand', 'sample_lhs', 'rand_stab'):
        out.append({'func': 'h_symbolic_seed', 'params': {'name': name}})
    out.append({'func': 'h_anova_history', 'params': {}})
    out.append({'func': 'h_restart_generator', 'params': {}, 'opts': {'symbolic_signs': False}})
    for case in ('cross_act_0', 'cross_act_1', 'cross_act_2', 'cross_act_3', 'core_qr_rand', 'sample_func', 'sample_func_history',
                 'als_func_repeat', 'lhs_after_history', 'anova_sample', 'anova_fpath', 'als_swap_fortran'):
        out.append({'func': 'h_concrete_seeded', 'params': {'case': case}, 'opts': {'concrete_only': True}})
    for name in ['rand', 'rand_norm', 'rand_stab', 'sample', 'sample_lhs', 'sample_rand', 'sample_rand_poi',
                 'sample_tt', 'sample_square', 'sample_square_dup', 'anova']:
        out.append({'func': 'h_seeded', 'params': {'name': name}, 'opts': {'symbolic_signs': False}})
    for name in ['func_diff_matrix', 'func_basis', 'grid_prep_opts', 'matrix_delta', 'ind_tt_to_qtt',
                 'add', 'mul', 'sub', 'full', 'get', 'sum', 'mul_scalar', 'const', 'delta', 'poly', 'grid_flat',
                 'interface', 'cache_to_data', 'orthogonalize_dummy', 'orthogonalize_left_dummy', 'truncate_dummy',
                 'grid_prep_opt', 'ind_to_poi', 'poi_to_ind']:
        out.append({'func': 'h_repeatable', 'params': {'name': name}, 'opts': {'symbolic_signs': False}})
    return out


BOUNDS = {
    'quick': 'every exported function with a seed parameter except core_qr_rand, cross_act, sample_func (see outside): one '
             'argument profile each, symbolic tensor / data values; integer seed, generator object, unrelated library calls '
             'in between; repeated calls of 13 deterministic functions',
    'thorough': 'same',
}
OUTSIDE = ('core_qr_rand, cross_act (QR of matrices extended by random columns), sample_func (polynomial root finder) are not '
           'encodable: they are run on the real code with fixed inputs only (concrete_only instances, not decided by the solver); '
           'bit-identity of float reductions is assumed for identical instruction streams')
ASSUMPTIONS = ['RNG audit: the stub generator records every draw with its stream; any use of the global numpy.random state '
               'raises in the model and is replayed on the real code under two different global seeds']
