"""C06 - TT-cross honours its evaluation budget, index domain and stop contract."""
import itertools
import numpy as np
import teneva
from harness.common import *
from harness.cross_common import *
from symtt.ref import ref_full, well_formed


def _check_batches(ctx, orc, n):
    d = len(n)
    ok = True
    for B in orc.batches:
        ok = ok and B.ndim == 2 and B.shape[1] == d and np.issubdtype(B.dtype, np.integer)
        ok = ok and bool(np.all(B >= 0)) and all(bool(np.all(B[:, k] < n[k])) for k in range(d))
    return ok


def h_budget(ctx, n, r0, dr, nswp, with_cache):
    """Symbolic budget m >= 1 (unbounded integer); oracle values arbitrary."""
    d = len(n)
    m = ctx.integer('m')
    ctx.assume(ctx.ge(m, 1))
    orc = Oracle(ctx, fresh=True, n=n)
    Y0 = simple_Y0(n, r0)
    info = {}
    cache = {} if with_cache else None
    with stubs_installed(ctx, 'first'):
        Y = teneva.cross(orc, Y0, m=m, nswp=nswp, dr_min=dr[0], dr_max=dr[1], info=info, cache=cache)
    ctx.claim('well_formed_same_shape', well_formed(Y, n))
    ctx.claim('finite', finite(ctx, Y))
    ctx.claim('batches_integer_width_d_in_bounds', _check_batches(ctx, orc, n))
    # evaluated = indices of the batches that were answered (all of them here)
    evaluated = sum(len(B) for B in orc.batches)
    ctx.claim('info_m_counts_evaluations', info['m'] == evaluated)
    ctx.claim('budget_respected', ctx.le(evaluated, m))
    ctx.claim('documented_stop', info['stop'] in ('m', 'nswp', 'conv'))
    if info['stop'] == 'nswp':
        ctx.claim('nswp_exact', info['nswp'] == nswp)
    if info['stop'] == 'm':
        ctx.claim('m_only_when_next_batch_would_exceed', ctx.gt(evaluated + 1, m - _max_batch(n, r0, dr, nswp)))
    if with_cache:
        keys = set()
        dup = False
        for B in orc.batches:
            for i in B:
                t = tuple(int(x) for x in i)
                dup = dup or t in keys
                keys.add(t)
        ctx.claim('cache_each_index_once', not dup)
        ctx.claim('cache_holds_evaluated_pairs', set(cache.keys()) == keys and
                  all(bool(ctx.eq(cache[k], orc.values[k])) for k in keys))
    ctx.canary('canary', ctx.gt(evaluated, m))


def _max_batch(n, r0, dr, nswp):
    # an upper bound on one batch: (r0 + nswp*dr_max + ...)^2 * max n
    r = r0 + (nswp + 1) * dr[1] + 1
    return r * r * max(n)


def h_func_none(ctx, n, r0, nswp):
    """Objective returns None at its k-th call (symbolic k)."""
    k = ctx.integer('k')
    ctx.assume(ctx.ge(k, 1))
    orc = Oracle(ctx, fresh=True, n=n, none_at=k)
    Y0 = simple_Y0(n, r0)
    info = {}
    with stubs_installed(ctx, 'first'):
        Y = teneva.cross(orc, Y0, nswp=nswp, dr_min=0, dr_max=0, info=info)
    ctx.claim('well_formed_same_shape', well_formed(Y, n))
    ctx.claim('finite', finite(ctx, Y))
    answered = sum(len(B) for j, B in enumerate(orc.batches) if not (info['stop'] == 'func' and j == len(orc.batches) - 1))
    ctx.claim('info_m_counts_evaluations', info['m'] == answered)
    ctx.claim('stop_func_iff_none_returned', ctx.any_([
        ctx.all_([info['stop'] == 'func', ctx.eq(k, orc.calls)]),
        ctx.all_([info['stop'] == 'nswp', ctx.gt(k, orc.calls), info['nswp'] == nswp])]))


def h_callback(ctx, n, r0, nswp):
    s = ctx.integer('s')
    ctx.assume(ctx.ge(s, 1))
    orc = Oracle(ctx, fresh=True, n=n)
    Y0 = simple_Y0(n, r0)
    info = {}
    seen = []

    def cb(Y, info_, opts):
        seen.append(info_['nswp'])
        return bool(ctx.eq(s, info_['nswp']))
    with stubs_installed(ctx, 'first'):
        Y = teneva.cross(orc, Y0, nswp=nswp, dr_min=0, dr_max=0, info=info, cb=cb)
    ctx.claim('well_formed_same_shape', well_formed(Y, n))
    ctx.claim('callback_every_sweep', seen == list(range(1, info['nswp'] + 1)))
    ctx.claim('stop_cb_right_after_true', ctx.any_([
        ctx.all_([info['stop'] == 'cb', ctx.eq(s, info['nswp'])]),
        ctx.all_([info['stop'] == 'nswp', ctx.gt(s, nswp), info['nswp'] == nswp])]))


def h_thresholds(ctx, n, r0):
    """Symbolic thresholds e / e_vld (values of info['e'] arbitrary, e_vld real)."""
    e = ctx.real('e')
    ctx.assume(ctx.gt(e, 0))
    orc = Oracle(ctx, fresh=True, n=n)
    Y0 = simple_Y0(n, r0)
    info = {}
    with stubs_installed(ctx, 'first') as st:
        Y = teneva.cross(orc, Y0, e=e, nswp=2, dr_min=0, dr_max=0, info=info)
    ctx.claim('well_formed_same_shape', well_formed(Y, n))
    ctx.claim('documented_stop', info['stop'] in ('e', 'nswp'))
    if info['stop'] == 'e':
        ctx.claim('e_only_below_threshold', ctx.le(info['e'], e))
    else:
        ctx.claim('nswp_exact', info['nswp'] == 2)
        ctx.claim('not_converged_before', ctx.gt(info['e'], e))


def h_missing_criteria(ctx, n):
    orc = Oracle(ctx, fresh=True, n=n)
    Y0 = simple_Y0(n, 1)
    ctx.raises(ValueError, 'no_criterion_rejected', teneva.cross, orc, Y0)
    ctx.raises(ValueError, 'e_vld_without_data_rejected', teneva.cross, orc, Y0, None, None, 2, 1.1, 1, 1, 1.05, 100, {}, None,
               None, None, 0.1)
    I_vld = np.array([[0] * len(n)])
    y_vld = np.array([1.])
    ctx.raises(ValueError, 'vld_data_without_threshold_rejected', lambda: teneva.cross(orc, Y0, I_vld=I_vld, y_vld=y_vld))
    ctx.claim('zero_evaluations_before_rejection', orc.calls == 0)


def h_default_info(ctx, n, r0):
    """Default info / cache arguments carry nothing over between calls."""
    orc1 = Oracle(ctx, fresh=True, n=n)
    Y0 = simple_Y0(n, r0)
    with stubs_installed(ctx, 'first'):
        teneva.cross(orc1, Y0, m=3, nswp=1, dr_min=0, dr_max=0)          # leaves m_max etc. in the default dict
        orc2 = Oracle(ctx, fresh=True, n=n)
        orc2.values = orc1.values
        Ya = teneva.cross(orc2, Y0, nswp=1, dr_min=0, dr_max=0)
        orc3 = Oracle(ctx, fresh=True, n=n)
        orc3.values = orc1.values
        Yb = teneva.cross(orc3, Y0, nswp=1, dr_min=0, dr_max=0, info={})
    ctx.claim('default_info_carries_nothing_over', len(Ya) == len(Yb) and
              all(a.shape == b.shape and bool(ctx.all_eq(a, b)) for a, b in zip(Ya, Yb)))
    ctx.claim('same_requests', len(orc2.batches) == len(orc3.batches))


def instances(tier):
    out = []
    quick = tier == 'quick'
    G = {'generic_divisors': True}
    cfg = [([2, 2], 1, (0, 0), 1), ([2, 2], 1, (1, 1), 1), ([2, 2, 2], 1, (0, 0), 1), ([2, 3], 2, (0, 0), 1)]
    if not quick:
        cfg += [([2, 2], 1, (0, 1), 2), ([2, 2, 2], 1, (1, 1), 1), ([3, 3], 2, (0, 1), 1), ([2, 2, 2], 2, (0, 0), 2)]
    for n, r0, dr, nswp in cfg:
        for wc in (False, True):
            out.append({'func': 'h_budget', 'params': {'n': n, 'r0': r0, 'dr': list(dr), 'nswp': nswp, 'with_cache': wc},
                        'opts': G})
    for n, r0, nswp in [([2, 2], 1, 1), ([2, 2, 2], 1, 1)] + ([] if quick else [([2, 2], 2, 2)]):
        out.append({'func': 'h_func_none', 'params': {'n': n, 'r0': r0, 'nswp': nswp}, 'opts': G})
    for n, r0, nswp in [([2, 2], 1, 2)] + ([] if quick else [([2, 2, 2], 1, 2), ([2, 2], 1, 3)]):
        out.append({'func': 'h_callback', 'params': {'n': n, 'r0': r0, 'nswp': nswp}, 'opts': G})
    out.append({'func': 'h_thresholds', 'params': {'n': [2, 2], 'r0': 1}, 'opts': G})
    out.append({'func': 'h_missing_criteria', 'params': {'n': [2, 2]}, 'opts': G})
    out.append({'func': 'h_default_info', 'params': {'n': [2, 2], 'r0': 1}, 'opts': G})
    return out


BOUNDS = {
    'quick': 'shapes (2,2),(2,3),(2,2,2), initial ranks 1,2, (dr_min,dr_max) in {(0,0),(1,1)}, one sweep; symbolic UNBOUNDED budget m, '
             'call number k of the None answer, callback sweep s, threshold e; oracle values arbitrary (fresh symbols); with and '
             'without cache; missing stop criteria',
    'thorough': 'adds (0,1) rank growth, two sweeps, (3,3) rank 2',
}
OUTSIDE = ('which rows maxvol actually picks (one admissible choice per call here, all choices in C05); larger shapes; the "conv" stop; '
           'finiteness in the float sense; e_vld with validation data (needs norm atoms of the result)')
ASSUMPTIONS = ['maxvol / maxvol_rect replaced by their C08 contract, QR relaxed (see cross_common)', 'teneva.accuracy replaced by an '
               'arbitrary non-negative value', 'divisors (selected sub-matrix determinants) generic', 'exact real arithmetic']
