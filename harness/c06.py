"""C06 - TT-cross honours its evaluation budget, index domain and stop contract."""
import itertools
import numpy as np
import teneva
from harness.common import *
from harness.cross_common import *
from symtt.ref import ref_full, well_formed


def _check_batches(ctx, orc, n):
    d = len(n)
    ok = True
    for B in orc.batches:
        ok = ok and B.ndim == 2 and B.shape[1] == d and np.issubdtype(B.dtype, np.integer)
        ok = ok and bool(np.all(B >= 0)) and all(bool(np.all(B[:, k] < n[k])) for k in range(d))
    return ok


def h_budget(ctx, n, r0, dr, nswp, with_cache, prefill=0, with_e=False):
    """Symbolic budget m >= 1 (unbounded integer); oracle values arbitrary.
    prefill: number of index -> value pairs already in the cache on entry."""
    d = len(n)
    m = ctx.integer('m')
    ctx.assume(ctx.ge(m, 1))
    orc = Oracle(ctx, fresh=True, n=n)
    Y0 = simple_Y0(n, r0)
    info = {}
    cache = {} if with_cache else None
    pre = {}
    if with_cache and prefill:
        from symtt.ref import multi_indices
        for key in multi_indices(n)[:prefill]:
            orc(np.array([key]))
        orc.batches.clear()
        orc.calls = 0
        pre = dict(orc.values)
        cache.update({k: v for k, v in pre.items()})
    ekw = {}
    if with_e:
        e = ctx.real('e')
        ctx.assume(ctx.gt(e, 0))
        ekw = {'e': e}
    # reference: the unconstrained run (same admissible choices) gives the sizes of the
    # successive evaluation batches; a budget must cut exactly before the first batch that does not fit
    ref_orc = Oracle(ctx, fresh=True, n=n)
    ref_orc.values = dict(orc.values)
    with stubs_installed(ctx, 'first'):
        teneva.cross(ref_orc, Y0, nswp=nswp, dr_min=dr[0], dr_max=dr[1], info={},
                     cache=(dict(pre) if with_cache else None))
    sizes = [len(B) for B in ref_orc.batches]
    orc.values = ref_orc.values
    import sys
    cmod = sys.modules['teneva.cross']
    real_eval = cmod._func_eval
    served = []

    def spy_eval(f, I, info_, cache_=None):
        res = real_eval(f, I, info_, cache_)
        if res is not None:
            served.append(len(I))
        return res
    cmod._func_eval = spy_eval
    try:
        with stubs_installed(ctx, 'first'):
            Y = teneva.cross(orc, Y0, m=m, nswp=nswp, dr_min=dr[0], dr_max=dr[1], info=info, cache=cache, **ekw)
    finally:
        cmod._func_eval = real_eval
    # every index of a request that was answered is either evaluated or taken from the cache, and only those count
    ctx.claim('counters_cover_answered_requests_only', info['m'] + info['m_cache'] == sum(served))
    ctx.claim('well_formed_same_shape', well_formed(Y, n))
    ctx.claim('finite', finite(ctx, Y))
    ctx.claim('batches_integer_width_d_in_bounds', _check_batches(ctx, orc, n))
    # evaluated = indices of the batches that were answered (all of them here)
    evaluated = sum(len(B) for B in orc.batches)
    ctx.claim('info_m_counts_evaluations', info['m'] == evaluated)
    ctx.claim('budget_respected', ctx.le(evaluated, m))
    ctx.claim('documented_stop', info['stop'] in (('m', 'nswp', 'conv', 'e') if with_e else ('m', 'nswp', 'conv')))
    if info['stop'] == 'nswp':
        ctx.claim('nswp_exact', info['nswp'] == nswp)
    if info['stop'] == 'm':
        # the batches answered are a prefix of the unconstrained sequence and the next one does not fit
        J = len(orc.batches)
        pref = sum(sizes[:J])
        ctx.claim('m_prefix_of_unconstrained_run', [len(B) for B in orc.batches] == sizes[:J] and J < len(sizes))
        if J < len(sizes):
            ctx.claim('m_only_when_next_batch_would_exceed', ctx.gt(pref + sizes[J], m))
    elif info['stop'] in ('nswp', 'conv') and not with_e:
        ctx.claim('unconstrained_when_budget_suffices', [len(B) for B in orc.batches] == sizes and ctx.le(sum(sizes), m))
    if with_cache:
        keys = set()
        dup = False
        for B in orc.batches:
            for i in B:
                t = tuple(int(x) for x in i)
                dup = dup or t in keys
                keys.add(t)
        ctx.claim('cache_each_index_once', not dup and not (keys & set(pre)))
        ctx.claim('cache_holds_evaluated_pairs', set(cache.keys()) == keys | set(pre) and
                  all(bool(ctx.eq(cache[k], orc.values[k])) for k in keys))
    ctx.canary('canary', ctx.gt(evaluated, m))


def _max_batch(n, r0, dr, nswp):
    # an upper bound on one batch: (r0 + nswp*dr_max + ...)^2 * max n
    r = r0 + (nswp + 1) * dr[1] + 1
    return r * r * max(n)


def h_func_none(ctx, n, r0, nswp, with_e=False, with_vld=False, with_cache=False, dr=(0, 0)):
    """Objective returns None at its k-th call (symbolic k)."""
    k = ctx.integer('k')
    ctx.assume(ctx.ge(k, 1))
    orc = Oracle(ctx, fresh=True, n=n, none_at=k)
    Y0 = simple_Y0(n, r0)
    info = {}
    kw = {}
    if with_e:
        e = ctx.real('e')
        ctx.assume(ctx.gt(e, 0))
        kw['e'] = e
    if with_vld:
        from symtt.ref import multi_indices, ref_get
        Iv = np.array(multi_indices(n)[:2])
        yv = vec(ctx, 'yv', 2)
        ctx.assume(ctx.gt(yv[0], 0))
        kw.update({'I_vld': Iv, 'y_vld': yv})
    cache = {} if with_cache else None
    with stubs_installed(ctx, 'first'):
        Y = teneva.cross(orc, Y0, nswp=nswp, dr_min=dr[0], dr_max=dr[1], info=info, cache=cache, **kw)
    ctx.claim('well_formed_same_shape', well_formed(Y, n))
    ctx.claim('finite', finite(ctx, Y))
    if with_cache:
        ctx.claim('info_m_is_cache_size', info['m'] == len(cache))
    if with_vld:
        d2 = sum(((ref_get(Y, tuple(i)) - yv[j]) ** 2 for j, i in enumerate(Iv)), 0)
        ctx.claim('e_vld_is_error_of_returned_tensor', ctx.eq(info['e_vld'] * info['e_vld'] * sumsq(yv), d2))
    answered = sum(len(B) for j, B in enumerate(orc.batches) if not (info['stop'] == 'func' and j == len(orc.batches) - 1))
    ctx.claim('info_m_counts_evaluations', info['m'] == answered)
    ctx.claim('stop_func_iff_none_returned', ctx.any_([
        ctx.all_([info['stop'] == 'func', ctx.eq(k, orc.calls)]),
        ctx.all_([info['stop'] in (('nswp', 'e') if with_e else ('nswp',)), ctx.gt(k, orc.calls)])]))


def h_budget_kinds(ctx, kind, with_cache):
    """The budget given as a Python int / float or a NumPy scalar (a length, an
    element of an integer array, a product of sizes): the same limit in every case."""
    n = [2, 2]
    M = 5
    m = {'int': M, 'float': float(M), 'np.int64': np.int64(M), 'np.int32': np.int32(M), 'np.intp': np.intp(M),
         'np.float64': np.float64(M), 'array_element': np.array([M, 7])[0]}[kind]
    orc = Oracle(ctx, fresh=True, n=n)
    info = {}
    with stubs_installed(ctx, 'first'):
        Y = teneva.cross(orc, simple_Y0(n, 1), m=m, nswp=3, dr_min=0, dr_max=0, info=info,
                         cache=({} if with_cache else None))
    ctx.claim('well_formed_same_shape', well_formed(Y, n))
    evaluated = sum(len(B) for B in orc.batches)
    ctx.claim('budget_respected', evaluated <= M)
    ctx.claim('info_m_counts_evaluations', info['m'] == evaluated)
    if not with_cache:
        # (with a cache a 2 x 2 tensor is exhausted before the budget is)
        ctx.claim('stopped_by_budget', info['stop'] == 'm')
    ctx.claim('finite', finite(ctx, Y))


def h_callback(ctx, n, r0, nswp):
    s = ctx.integer('s')
    ctx.assume(ctx.ge(s, 1))
    orc = Oracle(ctx, fresh=True, n=n)
    Y0 = simple_Y0(n, r0)
    info = {}
    seen = []

    def cb(Y, info_, opts):
        seen.append(info_['nswp'])
        return bool(ctx.eq(s, info_['nswp']))
    with stubs_installed(ctx, 'first'):
        Y = teneva.cross(orc, Y0, nswp=nswp, dr_min=0, dr_max=0, info=info, cb=cb)
    ctx.claim('well_formed_same_shape', well_formed(Y, n))
    ctx.claim('callback_every_sweep', seen == list(range(1, info['nswp'] + 1)))
    ctx.claim('stop_cb_right_after_true', ctx.any_([
        ctx.all_([info['stop'] == 'cb', ctx.eq(s, info['nswp'])]),
        ctx.all_([info['stop'] == 'nswp', ctx.gt(s, nswp), info['nswp'] == nswp])]))


def h_thresholds(ctx, n, r0, with_vld=False):
    """Symbolic thresholds e / e_vld (values of info['e'] arbitrary, e_vld real).
    with_vld: validation data given without a validation threshold (it is
    reported, but it is not a stop criterion)."""
    e = ctx.real('e')
    ctx.assume(ctx.gt(e, 0))
    orc = Oracle(ctx, fresh=True, n=n)
    Y0 = simple_Y0(n, r0)
    info = {}
    kw = {}
    if with_vld:
        from symtt.ref import multi_indices
        yv = vec(ctx, 'yv', 2)
        ctx.assume(ctx.gt(yv[0], 0))
        kw = {'I_vld': np.array(multi_indices(n)[:2]), 'y_vld': yv}
    with stubs_installed(ctx, 'first') as st:
        Y = teneva.cross(orc, Y0, e=e, nswp=2, dr_min=0, dr_max=0, info=info, **kw)
    ctx.claim('well_formed_same_shape', well_formed(Y, n))
    ctx.claim('documented_stop', info['stop'] in ('e', 'nswp'))
    if info['stop'] == 'e':
        ctx.claim('e_only_below_threshold', ctx.le(info['e'], e))
    else:
        ctx.claim('nswp_exact', info['nswp'] == 2)
        ctx.claim('not_converged_before', ctx.gt(info['e'], e))


def h_threshold_vld(ctx, n, r0):
    """Symbolic validation threshold with symbolic validation values (oracle values
    arbitrary): the reason 'e_vld' is reported only together with a validation
    error of the RETURNED tensor that is at or below the threshold - also when the
    initial approximation meets it before the first sweep (warm start)."""
    from symtt.ref import multi_indices, ref_get
    ev = ctx.real('ev')
    ctx.assume(ctx.gt(ev, 0))
    Iv = np.array(multi_indices(n)[:2])
    yv = vec(ctx, 'yv', 2)
    ctx.assume(ctx.gt(yv[0], 0))
    orc = Oracle(ctx, fresh=True, n=n)
    info = {}
    with stubs_installed(ctx, 'first'):
        Y = teneva.cross(orc, simple_Y0(n, r0), e_vld=ev, nswp=2, dr_min=0, dr_max=0, info=info, I_vld=Iv, y_vld=yv)
    ctx.claim('well_formed_same_shape', well_formed(Y, n))
    ctx.claim('documented_stop', info['stop'] in ('e_vld', 'nswp'))
    d2 = sum(((ref_get(Y, tuple(i)) - yv[j]) ** 2 for j, i in enumerate(Iv)), 0)
    ctx.claim('e_vld_is_error_of_returned_tensor', ctx.eq(info['e_vld'] * info['e_vld'] * sumsq(yv), d2))
    if info['stop'] == 'e_vld':
        ctx.claim('e_vld_only_below_threshold', ctx.le(info['e_vld'], ev))
    else:
        ctx.claim('nswp_exact', info['nswp'] == 2)
        ctx.claim('not_met_before', ctx.gt(info['e_vld'], ev))


class _OracleCalled(Exception):
    pass


def h_missing_criteria(ctx, n):
    """Every argument combination without a usable stop criterion is rejected
    before the first evaluation (the oracle raises when called: an accepted
    combination would otherwise run for ever)."""
    calls = [0]

    def orc(I):
        calls[0] += 1
        raise _OracleCalled()
    Y0 = simple_Y0(n, 1)
    I_vld = np.array([[0] * len(n)])
    y_vld = np.array([1.])
    cases = {
        'no_criterion_rejected': {},
        'e_vld_without_data_rejected': {'nswp': 2, 'e_vld': 0.1},
        'e_vld_with_indices_only_rejected': {'nswp': 2, 'e_vld': 0.1, 'I_vld': I_vld},
        'e_vld_with_values_only_rejected': {'m': 5, 'e_vld': 0.1, 'y_vld': y_vld},
        'vld_data_without_threshold_rejected': {'I_vld': I_vld, 'y_vld': y_vld},
        'vld_indices_only_rejected': {'I_vld': I_vld},
        'vld_values_only_rejected': {'y_vld': y_vld},
    }
    for name, kw in cases.items():
        try:
            ctx.raises(ValueError, name, lambda: teneva.cross(orc, Y0, **kw))
        except _OracleCalled:
            ctx.claim(name, False)
    ctx.claim('zero_evaluations_before_rejection', calls[0] == 0)


def h_default_info(ctx, n, r0):
    """Default info / cache arguments carry nothing over between calls."""
    orc1 = Oracle(ctx, fresh=True, n=n)
    Y0 = simple_Y0(n, r0)
    with stubs_installed(ctx, 'first'):
        teneva.cross(orc1, Y0, m=3, nswp=1, dr_min=0, dr_max=0)          # leaves m_max etc. in the default dict
        orc2 = Oracle(ctx, fresh=True, n=n)
        orc2.values = orc1.values
        Ya = teneva.cross(orc2, Y0, nswp=1, dr_min=0, dr_max=0)
        orc3 = Oracle(ctx, fresh=True, n=n)
        orc3.values = orc1.values
        Yb = teneva.cross(orc3, Y0, nswp=1, dr_min=0, dr_max=0, info={})
    ctx.claim('default_info_carries_nothing_over', len(Ya) == len(Yb) and
              all(a.shape == b.shape and bool(ctx.all_eq(a, b)) for a, b in zip(Ya, Yb)))
    ctx.claim('same_requests', len(orc2.batches) == len(orc3.batches))
    # a reused (or default) dictionary that ended a run with some convergence value / budget
    # does not influence the next run: same sweeps, stop reason and requests as with a fresh one
    e = ctx.real('e')
    ctx.assume(ctx.gt(e, 0))
    for tag, kw in (('e', {'e': e, 'nswp': 2}), ('m', {'m': 3, 'nswp': 2})):
        runs = []
        for reuse in (True, False):
            with stubs_installed(ctx, 'first'):          # (same accuracy outcomes acc_1, acc_2, ... in both runs)
                o = Oracle(ctx, fresh=True, n=n)
                o.values = orc1.values
                if reuse:
                    inf = {}
                    teneva.cross(o, Y0, m=50, nswp=1, dr_min=0, dr_max=0, info=inf)
                    o.batches.clear()
                    left = inf['e']
                else:
                    o2 = Oracle(ctx, fresh=True, n=n)
                    o2.values = orc1.values
                    first = {}
                    teneva.cross(o2, Y0, m=50, nswp=1, dr_min=0, dr_max=0, info=first)
                    inf = {}
                    left = first['e']
                if tag == 'e' and not is_sym(ctx):
                    # concrete twin: a threshold above the value the first run left behind (the
                    # symbolic run covers every threshold; this one makes a stale value matter)
                    kw = dict(kw, e=max(float(e), 10. * float(left)))
                Yr = teneva.cross(o, Y0, dr_min=0, dr_max=0, info=inf, **kw)
                runs.append((Yr, inf['nswp'], inf['stop'], inf['m'], [len(B) for B in o.batches]))
        (Y1, s1, st1, m1, b1), (Y2, s2, st2, m2, b2) = runs
        ctx.claim('reused_info_same_run_' + tag, s1 == s2 and st1 == st2 and m1 == m2 and b1 == b2 and
                  all(a.shape == b.shape and bool(ctx.all_eq(a, b)) for a, b in zip(Y1, Y2)))
        if tag == 'm':
            ctx.claim('reused_info_budget_respected', sum(b1) <= 3)


def instances(tier):
    out = []
    quick = tier == 'quick'
    G = {'generic_divisors': True}
    cfg = [([2, 2], 1, (0, 0), 1), ([2, 2], 1, (1, 1), 1), ([2, 2, 2], 1, (0, 0), 1), ([2, 3], 2, (0, 0), 1),
           ([2, 2], 1, (0, 0), 0), ([2, 2], 1, (1, 1), 0),        # nswp = 0: no sweep at all
           ([3, 3], 2, (2, 2), 1)]                                  # requested growth above the rows available (clamped)
    if not quick:
        cfg += [([2, 2], 1, (0, 1), 2), ([2, 2, 2], 1, (1, 1), 1), ([3, 3], 2, (0, 1), 1), ([2, 2, 2], 2, (0, 0), 2)]
    for n, r0, dr, nswp in cfg:
        for wc in (False, True):
            out.append({'func': 'h_budget', 'params': {'n': n, 'r0': r0, 'dr': list(dr), 'nswp': nswp, 'with_cache': wc},
                        'opts': G})
    for n, r0, nswp in [([2, 2], 1, 1), ([2, 2, 2], 1, 1)] + ([] if quick else [([2, 2], 2, 2)]):
        out.append({'func': 'h_func_none', 'params': {'n': n, 'r0': r0, 'nswp': nswp}, 'opts': G})
    out.append({'func': 'h_func_none', 'params': {'n': [2, 2], 'r0': 1, 'nswp': 2, 'with_e': True}, 'opts': G})
    out.append({'func': 'h_func_none', 'params': {'n': [2, 2], 'r0': 1, 'nswp': 1, 'with_vld': True}, 'opts': G})
    out.append({'func': 'h_budget', 'params': {'n': [2, 2], 'r0': 1, 'dr': [0, 0], 'nswp': 1, 'with_cache': True, 'prefill': 2}, 'opts': G})
    out.append({'func': 'h_budget', 'params': {'n': [2, 2], 'r0': 1, 'dr': [0, 0], 'nswp': 2, 'with_cache': False, 'with_e': True}, 'opts': G})
    for n, r0, nswp in [([2, 2], 1, 2)] + ([] if quick else [([2, 2, 2], 1, 2), ([2, 2], 1, 3)]):
        out.append({'func': 'h_callback', 'params': {'n': n, 'r0': r0, 'nswp': nswp}, 'opts': G})
    out.append({'func': 'h_thresholds', 'params': {'n': [2, 2], 'r0': 1}, 'opts': G})
    out.append({'func': 'h_thresholds', 'params': {'n': [2, 2], 'r0': 1, 'with_vld': True}, 'opts': G})
    out.append({'func': 'h_threshold_vld', 'params': {'n': [2, 2], 'r0': 1}, 'opts': G})
    out.append({'func': 'h_func_none', 'params': {'n': [2, 2], 'r0': 1, 'nswp': 2, 'with_cache': True}, 'opts': G})
    out.append({'func': 'h_func_none', 'params': {'n': [2, 2, 2], 'r0': 1, 'nswp': 1, 'with_cache': True}, 'opts': G})
    # ranks still growing in the backward half-sweep when the run is cut (pending factor folded into the neighbour)
    out.append({'func': 'h_func_none', 'params': {'n': [3, 3], 'r0': 1, 'nswp': 1, 'dr': [1, 1]}, 'opts': G})
    out.append({'func': 'h_budget', 'params': {'n': [3, 3], 'r0': 1, 'dr': [1, 1], 'nswp': 1, 'with_cache': False}, 'opts': G})
    for kind in ('int', 'float', 'np.int64', 'np.int32', 'np.intp', 'np.float64', 'array_element'):
        out.append({'func': 'h_budget_kinds', 'params': {'kind': kind, 'with_cache': kind in ('np.int64', 'float')}, 'opts': G})
    out.append({'func': 'h_missing_criteria', 'params': {'n': [2, 2]}, 'opts': G})
    out.append({'func': 'h_default_info', 'params': {'n': [2, 2], 'r0': 1}, 'opts': G})
    return out


BOUNDS = {
    'quick': 'shapes (2,2),(2,3),(2,2,2), initial ranks 1,2, (dr_min,dr_max) in {(0,0),(1,1)}, one sweep; symbolic UNBOUNDED budget m, '
             'call number k of the None answer, callback sweep s, threshold e; oracle values arbitrary (fresh symbols); with and '
             'without cache; missing stop criteria',
    'thorough': 'adds (0,1) rank growth, two sweeps, (3,3) rank 2',
}
OUTSIDE = ('which rows maxvol actually picks (one admissible choice per call here, all choices in C05); larger shapes; the "conv" stop; '
           'finiteness in the float sense; e_vld with validation data (needs norm atoms of the result)')
ASSUMPTIONS = ['maxvol / maxvol_rect replaced by their C08 contract, QR relaxed (see cross_common)', 'teneva.accuracy replaced by an '
               'arbitrary non-negative value', 'divisors (selected sub-matrix determinants) generic', 'exact real arithmetic']
