"""C14 - samplers draw from exactly the distribution their TT-tensor defines."""
import itertools
import numpy as np
import teneva
from harness.common import *
from harness.c04 import rF, quasi_diag_tt
from symtt.ref import ref_full, ref_get, well_formed, multi_indices


def _gen(ctx, seed_stream, script=None, perm='reverse'):
    """Generator object passed as `seed`: the RNG stub in symbolic mode, a
    scripted stand-in with the same interface in concrete mode."""
    if is_sym(ctx):
        from symtt.stubs_rng import StubGenerator
        g = StubGenerator(seed_stream)
    else:
        g = _ConcreteScripted(ctx, seed_stream)
    g.script = list(script) if script is not None else None
    g.perm = perm
    return g


class _ConcreteScripted:
    """Concrete twin of the stub: returns the scripted indices, records p."""
    def __init__(self, ctx=None, stream='free'):
        self.log = []
        self.script = None
        self.perm = 'reverse'
        self._rng = np.random.default_rng(12345)
        self.ctx = ctx
        self.stream = stream
        self.calls = 0

    def _forked_outcomes(self, n, k, replace):
        """The outcomes the symbolic run forked on are inputs named like the
        stub's draws: replay exactly those (fall back to a real draw if invalid)."""
        out = []
        for _ in range(k):
            self.calls += 1
            name = f'rng_{self.stream}_{self.calls}_idx'
            v = self.ctx.integer(name) if self.ctx is not None and name in self.ctx.values else None
            if v is None or not (0 <= v < n) or (not replace and v in out):
                return None
            out.append(int(v))
        return out

    def choice(self, a, size=None, replace=True, p=None):
        n = int(a) if isinstance(a, (int, np.integer)) else len(a)
        pool = None if isinstance(a, (int, np.integer)) else np.asarray(a)
        k = 1 if size is None else int(np.prod(size))
        if p is not None:
            p = np.array(p, dtype=float)
            if abs(p.sum() - 1) > 1e-8 or (p < 0).any():
                raise ValueError('probabilities do not sum to 1 / are negative')
        if self.script:
            out = [self.script.pop(0) for _ in range(k)]
        else:
            out = self._forked_outcomes(n, k, replace)
            if out is None:
                out = list(self._rng.choice(n, k, replace=replace, p=p))
        self.log.append(('choice', n, size, p, [int(x) for x in out], bool(replace)))
        vals = [pool[i] for i in out] if pool is not None else out
        if size is None:
            return vals[0]
        return np.array(vals).reshape(size)

    def shuffle(self, x, axis=0):
        n = len(x)
        if self.perm == 'identity' or n < 2:
            return
        idx = list(range(n))[::-1] if self.perm == 'reverse' else list(range(1, n)) + [0]
        x[...] = np.array(x)[idx]

    def uniform(self, a=0., b=1., size=None):
        return self._rng.uniform(a, b, size)

    def normal(self, m=0., s=1., size=None):
        z = self._rng.standard_normal(size)
        self.__dict__.setdefault('zlog', []).append(z)
        return m + s * z

    def standard_normal(self, size=None):
        z = self._rng.standard_normal(size)
        self.__dict__.setdefault('zlog', []).append(z)
        return z


def h_sample_prob(ctx, n, r, target, gauge=False, edited=False):
    """sample(): product of the conditional distributions used for the target
    multi-index equals Y[i] / sum(Y) (non-negative cores, unsert = 0)."""
    d = len(n)
    Y = ctx.tt('y', n, r)
    for G in Y:
        for x in G.reshape(-1):
            ctx.assume(ctx.ge(x, 0))
    F = ref_full(Y)
    tot = F.sum()
    ctx.assume(ctx.gt(tot, 0))
    if gauge and r == 2:
        # same non-negative tensor carried by a mixed-sign core: G0 A, A^-1 G1 with A = [[1,1],[0,1]]
        A = np.array([[ctx.const(1), ctx.const(1)], [ctx.const(0), ctx.const(1)]], dtype=Y[0].dtype)
        Ai = np.array([[ctx.const(1), ctx.const(-1)], [ctx.const(0), ctx.const(1)]], dtype=Y[0].dtype)
        Y = [np.einsum('aib,bc->aic', Y[0], A), np.einsum('ab,bic->aic', Ai, Y[1])] + Y[2:]
    if edited:
        # the tensor was sampled before and some of its cores were then changed in place
        # (re-weighting / conditioning by the caller): the distribution is that of the tensor as it is now
        teneva.sample(Y, 1, seed=_gen(ctx, 'before', script=[0] * d), unsert=0.)
        w = vec(ctx, 'w', n[-1])
        for j in range(n[-1]):
            ctx.assume(ctx.gt(w[j], 0))
            Y[-1][:, j, :] = Y[-1][:, j, :] * w[j]
        Y[0][0, 0, :] = Y[0][0, 0, :] * 3
        F = ref_full(Y)
        tot = F.sum()
        ctx.assume(ctx.gt(tot, 0))
    g = _gen(ctx, 'audit', script=list(target))
    I = teneva.sample(Y, 1, seed=g, unsert=0.)
    ctx.claim('shape', I.shape == (1, d))
    ctx.claim('returns_drawn_index', [int(x) for x in I[0]] == list(target))
    ch = [e for e in g.log if e[0] == 'choice']
    ctx.claim('one_draw_per_mode', len(ch) == d)
    prod = 1
    for k, e in enumerate(ch):
        p = e[3]
        ctx.claim('distribution_normalised', ctx.eq(sum(p, 0), 1))
        ctx.claim('distribution_nonnegative', ctx.all_([ctx.ge(x, 0) for x in p]))
        prod = prod * p[target[k]]
    ctx.claim('chain_rule_probability', ctx.eq(prod * tot, F[tuple(target)]))
    ctx.canary('canary', ctx.eq(prod * tot, F[tuple(target)] + 1))


def h_sample_prob_int(ctx, target):
    """sample() on a non-negative tensor given by cores of integer dtype (a table
    of counts), d = 3, rank 2: same chain rule as for float cores."""
    Y = [np.array([[[1, 2], [3, 1]]]), np.array([[[2, 1], [1, 3]], [[1, 2], [4, 1]]]), np.array([[[1], [2]], [[3], [1]]])]
    F = ref_full([np.array([[[ctx.const(int(v)) for v in row] for row in blk] for blk in G],
                           dtype=object if is_sym(ctx) else float) for G in Y])
    tot = F.sum()
    g = _gen(ctx, 'audit', script=list(target))
    I = teneva.sample(Y, 1, seed=g, unsert=0.)
    ctx.claim('returns_drawn_index', [int(x) for x in I[0]] == list(target))
    ch = [e for e in g.log if e[0] == 'choice']
    prod = 1
    for k, e in enumerate(ch):
        prod = prod * e[3][target[k]]
    ctx.claim('chain_rule_probability', ctx.close(prod * tot, F[tuple(target)], 1e-9))
    ctx.claim('cores_untouched', all(G.dtype.kind == 'i' for G in Y))


def h_sample_shape(ctx, n, r, m):
    """All outcomes of the integer draws (forked): shape, dtype, bounds."""
    Y = ctx.tt('y', n, r)
    for G in Y:
        for x in G.reshape(-1):
            ctx.assume(ctx.gt(x, 0))
    g = _gen(ctx, 'free')
    I = teneva.sample(Y, m, seed=g)
    ctx.claim('shape', I.shape == (m, len(n)))
    ctx.claim('integer_dtype', np.issubdtype(I.dtype, np.integer))
    ctx.claim('bounds', all(0 <= int(I[t, k]) < n[k] for t in range(m) for k in range(len(n))))


def h_square_prob(ctx, n1, n2, r, target):
    """sample_square on a generic 2-D tensor: chain of conditionals multiplies
    to Y[i]^2 / ||Y||^2 (arbitrary signs)."""
    kk = min(r, n2)
    Q = householder_frame(ctx, 'q', n2, kk).T
    R = mat(ctx, 'r', r, kk)
    M = R @ Q
    Y = [ctx.array('y0', (1, n1, r)), rF(M, (r, n2, 1))]
    expect(ctx, 'rq', M, (R, Q))
    F = ref_full(Y)
    tot = sumsq(F)
    ctx.assume(ctx.gt(tot, 0))
    g = _gen(ctx, 'audit', script=list(target))
    I = teneva.sample_square(Y, 1, unique=False, seed=g)
    ctx.claim('shape', I.shape == (1, 2))
    ctx.claim('returns_drawn_index', [int(x) for x in I[0]] == list(target))
    ch = [e for e in g.log if e[0] == 'choice']
    prod = 1
    for k, e in enumerate(ch):
        p = e[3]
        ctx.claim('distribution_normalised', ctx.eq(sum(p, 0), 1))
        prod = prod * p[target[k]]
    ctx.claim('chain_rule_probability_squared', ctx.eq(prod * tot, F[tuple(target)] * F[tuple(target)]))


def h_square_prob3(ctx, targets):
    """sample_square, d = 3, rank 2, two samples drawn in one batch that agree in
    their second index but not in the first: every sample's chain of conditionals
    multiplies to its own Y[i]^2 / ||Y||^2.  The tensor is given in
    right-orthogonal form (fixed rational orthonormal rows in cores 1 and 2, free
    first core), so the RQ steps of the preparation are the registered (I, Q)."""
    c = ctx.const
    h = c(1) / 2
    t = c(1) / 10
    Q1 = np.array([[h, h, h, h], [t * 7, t, -t, -t * 7]], dtype=object if is_sym(ctx) else float)    # orthonormal rows: 49+1+1+49 = 100
    Q2 = np.array([[c(3) / 5, c(4) / 5], [c(-4) / 5, c(3) / 5]], dtype=object if is_sym(ctx) else float)
    G0 = ctx.array('g0', (1, 2, 2))
    expect(ctx, 'rq', Q1, (eye(ctx, 2), Q1))
    expect(ctx, 'rq', Q1 * 2, (eye(ctx, 2) * 2, Q1))       # (the stabilised preparation rescales this core by 2)
    expect(ctx, 'rq', Q2, (eye(ctx, 2), Q2))
    Y = [G0, rF(Q1, (2, 2, 2)), rF(Q2, (2, 2, 1))]
    F = ref_full(Y)
    tot = sumsq(F)
    ctx.assume(ctx.gt(tot, 0))
    m = len(targets)
    # draw order: one batched draw for mode 0, then per sample for mode 1, then per sample for mode 2
    script = [t[0] for t in targets] + [t[1] for t in targets] + [t[2] for t in targets]
    g = _gen(ctx, 'audit', script=script)
    I = teneva.sample_square(Y, m, unique=False, seed=g)
    ctx.claim('shape', I.shape == (m, 3))
    ctx.claim('returns_drawn_indices', [[int(x) for x in row] for row in I] == [list(t) for t in targets])
    ch = [e for e in g.log if e[0] == 'choice']
    ctx.claim('draw_count', len(ch) == 1 + 2 * m)
    # the samples of one call are independent draws: the batched first-mode draw is made with replacement
    ctx.claim('samples_of_a_batch_are_independent_draws', all(e[5] for e in ch))
    for s_, t in enumerate(targets):
        p0 = ch[0][3][t[0]]
        p1 = ch[1 + s_][3][t[1]]
        p2 = ch[1 + m + s_][3][t[2]]
        ctx.claim('chain_rule_probability_squared', ctx.eq(p0 * p1 * p2 * tot, F[tuple(t)] * F[tuple(t)]))


def h_square_int_seed(ctx, target, ranks):
    """sample_square with an INTEGER seed on a tensor with interior TT-rank-1
    bonds (ranks = 'one': rank-1 tensor, d = 3; 'outer': 2 x 2 x 2 x 2 with
    ranks 1-2-1-2-1 is left to the concrete family).  Environment: the generator
    that teneva._rand builds from an integer seed is a seed-determined stream,
    i.e. every generator created from that seed replays the same scripted
    outcomes from the start.  The sample returned is the scripted multi-index
    (one outcome of the stream per mode) and the conditionals multiply to
    Y[i]^2 / ||Y||^2."""
    c = ctx.const
    dt = object if is_sym(ctx) else float
    Q1 = np.array([[c(3) / 5, c(4) / 5]], dtype=dt)
    Q2 = np.array([[c(5) / 13, c(12) / 13]], dtype=dt)
    G0 = ctx.array('g0', (1, 2, 1))
    one = eye(ctx, 1)
    expect(ctx, 'rq', Q2, (one, Q2))
    expect(ctx, 'rq', Q1, (one, Q1))
    expect(ctx, 'rq', Q1 * 2, (one * 2, Q1))
    Y = [G0, rF(Q1, (1, 2, 1)), rF(Q2, (1, 2, 1))]
    F = ref_full(Y)
    tot = sumsq(F)
    ctx.assume(ctx.gt(tot, 0))
    made = []
    real = teneva._rand

    def seeded(seed=None):
        if isinstance(seed, (int, np.integer)) and not isinstance(seed, bool):
            g = _gen(ctx, 'audit', script=list(target))
            made.append(g)
            return g
        return real(seed)
    teneva._rand = seeded
    try:
        I = teneva.sample_square(Y, 1, unique=False, seed=7)
    finally:
        teneva._rand = real
    ctx.claim('shape', I.shape == (1, 3))
    ctx.claim('returns_the_outcomes_of_the_stream_in_order', [int(x) for x in I[0]] == list(target))
    ch = [e for g in made for e in g.log if e[0] == 'choice']
    ctx.claim('draw_count', len(ch) == 3)
    if len(ch) == 3:
        prob = ch[0][3][target[0]] * ch[1][3][target[1]] * ch[2][3][target[2]]
        ctx.claim('chain_rule_probability_squared', ctx.eq(prob * tot, F[tuple(target)] * F[tuple(target)]))


def h_square_quasi(ctx, d, n, target_i, unique):
    """sample_square on the super-diagonal family (any d): the only indices with
    positive probability are the diagonal ones, with probability a_i^2 / sum a^2."""
    Y, W = quasi_diag_tt(ctx, d, n)
    F = ref_full(Y)
    tot = sumsq(F)
    m = 1
    script = [target_i] * (d * (5 if unique else 1))
    g = _gen(ctx, 'audit', script=script)
    I = teneva.sample_square(Y, m, unique=unique, seed=g)
    ctx.claim('shape', I.shape == (m, d))
    ctx.claim('integer_dtype', np.issubdtype(I.dtype, np.integer))
    ctx.claim('returns_drawn_index', [int(x) for x in I[0]] == [target_i] * d)
    ch = [e for e in g.log if e[0] == 'choice']
    prod = 1
    for k in range(d):
        prod = prod * ch[k if k == 0 else (k - 1) * (5 if unique else 1) + 1 if False else k][3][target_i]
    idx = (target_i,) * d
    if not unique:
        ctx.claim('chain_rule_probability_squared', ctx.eq(prod * tot, F[idx] * F[idx]))
    ctx.claim('finite', True)


def h_square_unique(ctx, n, m):
    """unique=True returns distinct rows inside the bounds (all draw outcomes forked)."""
    Y, W = quasi_diag_tt(ctx, 2, n)
    g = _gen(ctx, 'free')
    try:
        I = teneva.sample_square(Y, m, unique=True, seed=g, m_fact=1, max_rep=-1)
    except ValueError as e:
        if 'Can not generate' in str(e):
            ctx.claim('documented_failure_only_when_too_few_distinct', True)
            return
        raise
    rows = [tuple(int(x) for x in row) for row in I]
    ctx.claim('shape', I.shape == (m, 2))
    ctx.claim('distinct_rows', len(set(rows)) == m)
    ctx.claim('bounds', all(0 <= v < n for row in rows for v in row))


def h_square_unique_retry(ctx, obj):
    """unique=True through its retry path: the first batch contains too few
    distinct rows, the repeated attempt enough (draws scripted)."""
    Y, W = quasi_diag_tt(ctx, 2, 2)
    # m = 2, m_fact = 1: first batch of 2 samples gives (0,0) twice -> retry with
    # m_fact = 2: 4 samples (0,0),(0,1),(0,0),(0,1) (four first-mode draws, then four second-mode draws)
    script = [0, 0, 0, 0] + [0, 0, 0, 0] + [0, 1, 0, 1] + [1, 1, 1, 1, 1, 1, 1, 1] * 4
    g = _gen(ctx, 'retry', script=script)
    I = teneva.sample_square(Y, 2, unique=True, seed=g, m_fact=1, max_rep=3)
    rows = [tuple(int(x) for x in row) for row in I]
    ctx.claim('shape', I.shape == (2, 2))
    ctx.claim('distinct_rows', len(set(rows)) == 2)
    ctx.claim('bounds', all(0 <= v < 2 for row in rows for v in row))


def h_concrete_many_samples(ctx):
    """More samples than any internal block size (m up to 12000), real code: on a
    tensor with a single non-zero entry every row is that entry's index; on a
    tensor that vanishes outside a sub-block every row lies inside the block;
    shape, dtype and bounds hold."""
    ok = True
    pos = (2, 1, 3)
    D = teneva.delta([3, 4, 5], list(pos), 2.)
    B = [np.array([[[1.], [2.], [0.]]]), np.array([[[0.], [1.], [3.], [0.]]]), np.array([[[2.], [0.], [0.], [1.], [0.]]])]
    for m in (5000, 12000):
        for fn, kw in ((teneva.sample_square, {'unique': False}), (teneva.sample, {})):
            I = fn(D, m, seed=3, **kw)
            ok = ok and I.shape == (m, 3) and np.issubdtype(I.dtype, np.integer) and bool(np.all(I == np.array(pos)))
            J = fn(B, m, seed=4, **kw)
            ok = ok and bool(np.all(J[:, 0] <= 1) and np.all((J[:, 1] == 1) | (J[:, 1] == 2)) and np.all((J[:, 2] == 0) | (J[:, 2] == 3)))
    ctx.claim('every_row_is_a_support_index', bool(ok))
    # unique sampling of almost / exactly all entries of small tensors (real code, fixed seeds)
    oku = True
    for n, m in (([2, 2, 2, 2], 14), ([2, 2, 2, 2], 16), ([3, 4, 2], 24), ([4, 3, 3], 30), ([2, 3], 6)):
        Yu = [np.ones((1, k, 1)) * (1. + 0.1 * j) for j, k in enumerate(n)]
        for seed in range(3):
            try:
                Iu = teneva.sample_square(Yu, m, unique=True, seed=seed)
            except ValueError:
                oku = False
                continue
            oku = oku and Iu.shape == (m, len(n)) and len({tuple(int(v) for v in row) for row in Iu}) == m
            oku = oku and all(0 <= int(row[k]) < n[k] for row in Iu for k in range(len(n)))
    ctx.claim('unique_rows_up_to_the_whole_tensor', bool(oku))
    # a mode longer than 2^15 with all mass beyond index 32767 (real code): the indices come back as they are
    G1 = np.zeros((1, 40000, 1))
    G1[0, 33000, 0] = 2.
    G1[0, 39999, 0] = 1.
    Yl = [np.ones((1, 3, 1)), G1, np.ones((1, 2, 1))]
    okl = True
    for fn, kw in ((teneva.sample, {}), (teneva.sample_square, {'unique': False})):
        J = fn(Yl, 40, seed=5, **kw)
        okl = okl and J.shape == (40, 3) and bool(np.all((J[:, 1] == 33000) | (J[:, 1] == 39999)))
        okl = okl and bool(np.all((J[:, 0] >= 0) & (J[:, 0] < 3) & (J[:, 2] >= 0) & (J[:, 2] < 2)))
    ctx.claim('indices_of_long_modes_returned_unchanged', bool(okl))


def h_lhs(ctx, n, m, perm):
    """Latin hypercube: every index of a mode occurs floor(m/k) or ceil(m/k) times
    (all outcomes of the without-replacement draws forked)."""
    g = _gen(ctx, 'free', perm=perm)
    I = teneva.sample_lhs(n, m, seed=g)
    ctx.claim('shape', I.shape == (m, len(n)))
    ctx.claim('integer_dtype', np.issubdtype(I.dtype, np.integer))
    ok = True
    for k, nk in enumerate(n):
        cnt = [int(np.sum(I[:, k] == j)) for j in range(nk)]
        ok = ok and all(c in (m // nk, -(-m // nk)) for c in cnt) and sum(cnt) == m
    ctx.claim('balanced_counts', ok)
    ctx.claim('bounds', all(0 <= int(I[t, k]) < n[k] for t in range(m) for k in range(len(n))))


def h_sample_tt(ctx, n, r):
    """Structured sample set for incomplete SVD: advertised block layout."""
    h_sample_tt_body(ctx, n, r, _gen(ctx, 'free'))


def h_sample_tt_body(ctx, n, r, g):
    d = len(n)
    I, idx, idx_many = teneva.sample_tt(n, r, seed=g)
    ctx.claim('width', I.shape[1] == d)
    ctx.claim('offsets_start_at_zero_and_cover', int(idx[0]) == 0 and int(idx[-1]) == I.shape[0] and len(idx) == d + 1)
    ok = True
    for k in range(d):
        blk = I[int(idx[k]):int(idx[k + 1])]
        len2 = int(idx_many[k])
        len1 = r if k > 0 else 1
        ok = ok and len2 == (r if k < d - 1 else 1)
        ok = ok and blk.shape[0] == len1 * n[k] * len2
        # layout: mode value slowest, then left prefixes, then right suffixes
        for t in range(blk.shape[0]):
            v, rem = divmod(t, len1 * len2)
            a, b = divmod(rem, len2)
            ok = ok and int(blk[t, k]) == v
            # same left prefix for equal a, same right suffix for equal b
            ok = ok and all(int(x) == int(y) for x, y in zip(blk[t, :k], blk[a * len2, :k]))
            ok = ok and all(int(x) == int(y) for x, y in zip(blk[t, k + 1:], blk[b, k + 1:]))
    ctx.claim('block_layout', ok)
    ctx.claim('bounds', all(0 <= int(I[t, k]) < n[k] for t in range(I.shape[0]) for k in range(d)))


def h_sample_tt_history(ctx, n, r_first, r):
    """The sample set for expected rank r does not depend on an earlier call
    with another expected rank (same integer seed, same shape)."""
    teneva.sample_tt(n, r_first, seed=7)
    h_sample_tt_body(ctx, n, r, 7)


def h_rand_samplers(ctx, n, m):
    g = _gen(ctx, 'free')
    I = teneva.sample_rand(n, m, seed=g)
    ctx.claim('sample_rand_shape', I.shape == (m, len(n)))
    ctx.claim('sample_rand_bounds', all(0 <= int(I[t, k]) < n[k] for t in range(m) for k in range(len(n))))
    a = [-1., 0.]
    b = [2., 3.]
    X = teneva.sample_rand_poi(a, b, m, seed=_gen(ctx, 'pts'))
    ctx.claim('sample_rand_poi_shape', X.shape == (m, 2))
    ctx.claim('sample_rand_poi_bounds', ctx.all_([ctx.ge(X[t, k], a[k]) for t in range(m) for k in range(2)] +
                                                 [ctx.le(X[t, k], b[k]) for t in range(m) for k in range(2)]))


def instances(tier):
    out = []
    quick = tier == 'quick'
    # (modes of size 1 in the middle / at the ends carry a rank-2 bond on both sides)
    for n, r in ([([2, 2], 2), ([2, 3], 1), ([2, 2, 2], 2), ([2, 1, 2], 2), ([1, 2, 1], 2)] if quick else
                 [([2, 2], 2), ([2, 3], 2), ([2, 2, 2], 2), ([3, 2, 2], 2), ([2, 1, 2], 2), ([1, 2, 1], 2), ([2, 1, 1, 2], 2)]):
        for tgt in multi_indices(n):
            out.append({'func': 'h_sample_prob', 'params': {'n': n, 'r': r, 'target': list(tgt)},
                        'opts': {'generic_divisors': True}})
    for tgt in multi_indices([2, 2]):
        out.append({'func': 'h_sample_prob', 'params': {'n': [2, 2], 'r': 2, 'target': list(tgt), 'gauge': True},
                    'opts': {'generic_divisors': True}})
    for tgt in ([0, 1, 1], [1, 0, 0], [1, 1, 0]):
        out.append({'func': 'h_sample_prob_int', 'params': {'target': tgt}})
    out.append({'func': 'h_sample_shape', 'params': {'n': [2, 2], 'r': 1, 'm': 2}})
    for tgt in multi_indices([2, 2]):
        out.append({'func': 'h_square_prob', 'params': {'n1': 2, 'n2': 2, 'r': 2, 'target': list(tgt)},
                    'opts': {'generic_divisors': True}})
    for tgt in [(0, 1), (1, 0)]:
        # over-ranked second core (rank 3 > mode size 2): economic RQ with a tall R
        out.append({'func': 'h_square_prob', 'params': {'n1': 2, 'n2': 2, 'r': 3, 'target': list(tgt)},
                    'opts': {'generic_divisors': True}})
    for targets in ([[0, 0, 1], [1, 0, 0]], [[1, 1, 0], [0, 1, 1]]):
        out.append({'func': 'h_square_prob3', 'params': {'targets': targets}, 'opts': {'generic_divisors': True}})
    for n, r, tgt in (([2, 2], 2, [1, 0]), ([2, 2, 2], 1, [0, 1, 1])):
        out.append({'func': 'h_sample_prob', 'params': {'n': n, 'r': r, 'target': tgt, 'edited': True},
                    'opts': {'generic_divisors': True}})
    for tgt in ([0, 1, 0], [1, 0, 1]):
        out.append({'func': 'h_square_int_seed', 'params': {'target': tgt, 'ranks': 'one'}, 'opts': {'generic_divisors': True}})
    out.append({'func': 'h_concrete_many_samples', 'params': {}, 'opts': {'concrete_only': True}})
    out.append({'func': 'h_square_unique_retry', 'params': {'obj': True}, 'opts': {'symbolic_signs': False}})
    for d, n in ([(3, 2)] if quick else [(3, 2), (4, 2), (3, 3)]):
        for t in range(n):
            out.append({'func': 'h_square_quasi', 'params': {'d': d, 'n': n, 'target_i': t, 'unique': False},
                        'opts': {'symbolic_signs': False}})
    out.append({'func': 'h_square_unique', 'params': {'n': 2, 'm': 2}, 'opts': {'symbolic_signs': False}})
    for n, m in ([([2, 3], 3), ([2, 2], 3), ([3], 4), ([3], 2), ([4], 3)] if quick else [([2, 3], 3), ([2, 2], 3), ([3], 4), ([3], 2), ([4], 3), ([3, 2], 5), ([4], 6)]):
        for perm in ('reverse', 'rotate'):
            out.append({'func': 'h_lhs', 'params': {'n': n, 'm': m, 'perm': perm}})
    # (non-uniform shapes: prefix and suffix sets of equal length belong to different modes)
    for n, r in ([([2, 2], 2), ([2, 2, 2], 2), ([3, 2], 3), ([2, 3], 2), ([3, 1, 2], 1)] if quick else [([2, 2], 2), ([2, 2, 2], 2), ([3, 2], 3), ([3, 3], 2), ([3, 3, 3], 3), ([2, 3, 4], 2), ([3, 1, 2], 1), ([4, 2, 3, 2], 2)]):
        out.append({'func': 'h_sample_tt', 'params': {'n': n, 'r': r}})
    out.append({'func': 'h_sample_tt_history', 'params': {'n': [2, 2], 'r_first': 1, 'r': 2}})
    out.append({'func': 'h_rand_samplers', 'params': {'n': [2, 3], 'm': 2}})
    # (mode sizes that are not uniform although their sum is d * n_0, or d * n_last; a mode of size 1)
    out.append({'func': 'h_rand_samplers', 'params': {'n': [3, 2, 4], 'm': 2}})
    out.append({'func': 'h_rand_samplers', 'params': {'n': [4, 2, 3], 'm': 1}})
    out.append({'func': 'h_rand_samplers', 'params': {'n': [2, 1, 3], 'm': 2}})
    return out


BOUNDS = {
    'quick': 'sample: shapes (2,2),(2,3),(2,2,2), rank <= 2, every target multi-index, symbolic non-negative cores; sample_square: '
             'generic 2x2 rank 2 (RQ parametrised) for every target, super-diagonal d=3; unique rows; sample_lhs m<=4 with all '
             'outcomes of the draws forked; sample_tt layout for (2,2),(2,2,2); sample_rand / sample_rand_poi shapes and bounds on (2,3),(3,2,4),(4,2,3),(2,1,3)',
    'thorough': 'adds (3,2,2) for sample, super-diagonal d=4 and n=3, lhs with m up to 6, sample_tt with n=3',
}
OUTSIDE = ('statistical quality of the generator (draws are nondeterministic within their contract); the default unsert=1e-10 '
           'regularisation (claim stated for unsert=0); float_cf interpolation mode of sample_square')
ASSUMPTIONS = ['probability audit: the scripted index has non-zero probability at every step (normalisers are generic divisors)', 'numpy.random.Generator replaced by a stub: integer draws forked over all outcomes or scripted by the harness, '
               'shuffle = a permutation chosen by the harness', 'exact real arithmetic']
